'''C16 Parallel evaluation equals serial evaluation.

Decided (lock, fork and sharing discipline, all visible in the shape of the code):
R16.1 the shared iteration counter is only touched under its lock and is created before the fork;
R16.2 _fork typestate: a child never leaves through anything but os._exit, the parent kills every child
      and re-raises on failure, waits for every child and raises if one failed; _wait is True only for exit status 0;
R16.3 every statement the block builder emits goes through _block_for over all its expressions, which wraps
      a `with lock` for every shared array mentioned; statement constructors are used outside only at listed sites;
R16.4 shared allocation <-> lock registration <-> pre-fork lock creation are paired; ctxrange only for outermost loops;
R16.5 arrays written inside a parallel region and read after it live in shared memory; each claimed index gets its slot assigned.
Not decided: numerical equality, actual schedules, behaviour of the OS primitives.
'''

import ast

from sa import AnalysisError
from sa.astutil import dotted, src, stmt_text, params, find_stmts, calls_in, method_name, walk_no_nested, const, deep_resolved
from sa.paths import PathEnumerator, Event
from sa.guards import facts_at, enclosing_conditions, decompose


# --------------------------------------------------------------------------- R16.1

def check_range(model, rep):
    c = model.cls('parallel:range')
    init = c.members['__init__'].func
    txt = src(init.node)
    ok = 'self._index = multiprocessing.RawValue(' in txt and 'self._lock = multiprocessing.Lock()' in txt
    rep.ob('R16.1', init.key, init.where(), ok, 'counter is a shared RawValue with a multiprocessing.Lock' if ok else
           'parallel.range no longer holds its counter in multiprocessing.RawValue guarded by multiprocessing.Lock', statement='shared-counter')
    n = 0
    for mem in c.members.values():
        if mem.func is None or mem.name == '__init__':
            continue
        f = mem.func
        # positions of every access to self._index.value
        accesses = [x for x in ast.walk(f.node) if isinstance(x, ast.Attribute) and x.attr == 'value' and src(x.value) == 'self._index']
        if not accesses:
            continue
        withs = [w for w in ast.walk(f.node) if isinstance(w, ast.With) and any(src(i.context_expr) == 'self._lock' for i in w.items)]
        for a in accesses:
            n += 1
            inside = any(any(x is a for x in ast.walk(w)) for w in withs)
            kind = 'store' if isinstance(a.ctx, ast.Store) else 'load'
            rep.ob('R16.1', f.key, f.where(a), inside, f'{kind} of the shared counter happens under self._lock' if inside else
                   f'{kind} of self._index.value outside `with self._lock`: two workers can claim the same iteration or skip one', statement=f'{kind} self._index.value@{_ordinal(accesses, a)}')
    if n < 2:
        raise AnalysisError('parallel.range: accesses of the shared counter not found')
    nx = c.members['__next__'].func
    # claim-then-increment inside one critical section; StopIteration when exhausted
    w = [w for w in ast.walk(nx.node) if isinstance(w, ast.With)]
    ok = len(w) == 1
    if ok:
        body = w[0].body
        loads = [s for s in body if isinstance(s, ast.Assign) and src(s.value) == 'self._index.value']
        stores = [s for s in body if isinstance(s, ast.Assign) and src(s.targets[0]) == 'self._index.value']
        stop = [s for s in body if isinstance(s, ast.If) and any(isinstance(b, ast.Raise) and 'StopIteration' in src(b) for b in s.body)]
        ok = len(loads) == 1 and len(stores) == 1 and len(stop) == 1 and loads[0].lineno < stop[0].lineno < stores[0].lineno
        if ok:
            v = src(loads[0].targets[0])
            ok = src(stores[0].value).replace(' ', '') in (f'{v}+1', f'1+{v}') and src(stop[0].test).replace(' ', '') in (f'{v}>=self._stop', f'self._stop<={v}')
            rets = [s for s in nx.body if isinstance(s, ast.Return)]
            ok = ok and len(rets) == 1 and src(rets[0].value) == v
    rep.ob('R16.1', nx.key, nx.where(), ok, 'claim, bound test and increment form one critical section; the claimed value is returned' if ok else
           '__next__ is no longer load / `>= stop: raise StopIteration` / store(+1) inside one `with self._lock` returning the claimed value', statement='claim-protocol')
    cr = model.func('parallel:ctxrange')
    rng = [s for s in cr.body if isinstance(s, ast.Assign) and isinstance(s.value, ast.Call) and src(s.value.func) == 'range']
    wf = [s for s in cr.body if isinstance(s, ast.With) and any(isinstance(i.context_expr, ast.Call) and src(i.context_expr.func) == 'fork' for i in s.items)]
    ok = len(rng) == 1 and len(wf) == 1 and rng[0].lineno < wf[0].lineno and src(rng[0].targets[0]) in src(wf[0])
    rep.ob('R16.1', cr.key, cr.where(), ok, 'the shared range is created before the fork context is entered' if ok else
           'ctxrange creates its counter after (or inside) the fork: every process would own a private counter and run all iterations', statement='range-before-fork')


def _ordinal(seq, item):
    return [i for i, x in enumerate(seq) if x is item][0]


# --------------------------------------------------------------------------- R16.2

def _wait_all(f):
    """The construct of _fork that waits for EVERY recorded child and derives the failure indicator from the results:
    (statement, indicator name) or (None, reason).  Understood spellings
      N = sum(not _wait(p) for p in child_pids)          (generator or list; fully consumed, no short circuit)
      N = len([p for p in child_pids if not _wait(p)])
      N = 0 ... for p in child_pids: if not _wait(p): N += 1      (or N += not _wait(p)); no break/continue/return in the loop"""
    waits = [c for c in calls_in(f.node) if src(c.func) == '_wait']
    if len(waits) != 1:
        return None, f'{len(waits)} calls of _wait'
    w = waits[0]

    def is_not_wait(e, var):
        return isinstance(e, ast.UnaryOp) and isinstance(e.op, ast.Not) and e.operand is w and len(w.args) == 1 and src(w.args[0]) == var and not w.keywords
    for st in find_stmts(f.body, lambda x: isinstance(x, ast.Assign)):
        if not any(x is w for x in ast.walk(st)) or len(st.targets) != 1 or not isinstance(st.targets[0], ast.Name) or not isinstance(st.value, ast.Call) or len(st.value.args) != 1:
            continue
        g = st.value.args[0]
        if not isinstance(g, (ast.GeneratorExp, ast.ListComp)) or len(g.generators) != 1 or src(g.generators[0].iter) != 'child_pids' or not isinstance(g.generators[0].target, ast.Name):
            return None, 'the results of _wait are not collected over child_pids'
        var = g.generators[0].target.id
        fn_ = src(st.value.func)
        if fn_ in ('sum', 'builtins.sum') and not g.generators[0].ifs and is_not_wait(g.elt, var):
            return st, st.targets[0].id
        if fn_ == 'len' and isinstance(g, ast.ListComp) and len(g.generators[0].ifs) == 1 and is_not_wait(g.generators[0].ifs[0], var):
            return st, st.targets[0].id
        return None, f'`{src(st.value)[:80]}` does not count `not _wait(pid)` over every child (a short-circuiting any/all stops waiting at the first failure)'
    for lp in find_stmts(f.body, lambda x: isinstance(x, ast.For)):
        if not any(x is w for x in ast.walk(lp)):
            continue
        if src(lp.iter) != 'child_pids' or not isinstance(lp.target, ast.Name) or lp.orelse:
            return None, 'the loop that waits does not run over child_pids'
        if any(isinstance(x, (ast.Break, ast.Continue, ast.Return, ast.Raise)) for x in ast.walk(lp)):
            return None, 'the loop that waits can be left before every child has been waited for'
        var = lp.target.id
        if len(lp.body) != 1:
            return None, 'the waiting loop does more than count failures'
        b = lp.body[0]
        name = None
        if isinstance(b, ast.If) and is_not_wait(b.test, var) and not b.orelse and len(b.body) == 1 and isinstance(b.body[0], ast.AugAssign) \
                and isinstance(b.body[0].op, ast.Add) and isinstance(b.body[0].target, ast.Name) and isinstance(const(b.body[0].value), int) and const(b.body[0].value) > 0:
            name = b.body[0].target.id
        elif isinstance(b, ast.AugAssign) and isinstance(b.op, (ast.Add, ast.BitOr)) and isinstance(b.target, ast.Name) and is_not_wait(b.value, var):
            name = b.target.id
        if name is None:
            return None, 'the waiting loop does not count `not _wait(pid)`'
        inits = [a for a in find_stmts(f.body, lambda x: isinstance(x, ast.Assign)) if any(isinstance(t, ast.Name) and t.id == name for t in a.targets)]
        if len(inits) != 1 or const(inits[0].value) not in (0, False) or inits[0].lineno > lp.lineno:
            return None, f'the failure counter `{name}` does not start at 0 before the loop'
        return lp, name
    return None, 'no construct that waits for every child'


def check_fork(model, rep):
    f = model.func('parallel:_fork')
    wait_stmt, wait_ind = _wait_all(f)

    def on_stmt(s, st):
        evs = []
        for c in ast.walk(s):
            if isinstance(c, ast.Call):
                n = src(c.func)
                if n == 'os.fork':
                    evs.append(Event('FORK', s))
                elif n == 'os.kill':
                    evs.append(Event('KILL', s, [src(a) for a in c.args]))
        if wait_stmt is not None and getattr(s, '_owner', s) is wait_stmt:
            evs.append(Event('WAIT', s))    # the construct that waits for every child (a loop counts from its header on: without children there is nothing to wait for)
        if isinstance(s, ast.Expr) and isinstance(s.value, ast.Yield):
            evs.append(Event('YIELD', s))
        return evs

    def fallible(s):
        if isinstance(s, ast.Expr) and isinstance(s.value, ast.Yield):
            return ('UserError',)
        if any(isinstance(c, ast.Call) and src(c.func) == 'os.fork' for c in ast.walk(s)):
            return ('OSError',)
        return ()

    def noreturn(s):
        return isinstance(s, ast.Expr) and isinstance(s.value, ast.Call) and src(s.value.func) == 'os._exit'
    pe = PathEnumerator(f.node, on_stmt=on_stmt, fallible=fallible, noreturn=noreturn, unroll=2, exc_parents={'UserError': 'BaseException'})
    paths = pe.paths()
    rep.unit('fork_paths', len(paths))
    if len(paths) < 6:
        raise AnalysisError(f'_fork: only {len(paths)} paths enumerated')
    child = [p for p in paths if p.flags.get('amchild') is True]
    parent = [p for p in paths if p.flags.get('amchild') is False]
    unknown = [p for p in paths if p.flags.get('amchild') not in (True, False)]
    if unknown or not child or not parent:
        raise AnalysisError('_fork: the child/parent flag `amchild` is not a constant flag on every path any more')
    bad = [p for p in child if p.end != 'exit']
    rep.ob('R16.2', f.key, f.where(), not bad, f'on all {len(child)} child paths control ends in os._exit' if not bad else
           f'a child process can leave _fork by `{bad[0].end}` instead of os._exit: it would continue running the parent\'s code after the parallel region', statement='child-exits')
    # children that failed exit non-zero
    bad = []
    for p in child:
        failed = any(e.kind == 'except' for e in p.events)
        ex = [e for e in p.events if e.kind == 'exit']
        code = const(ex[-1].node.value.args[0]) if ex else None
        if failed and code == 0:
            bad.append(p)
        if not failed and code != 0 and any(e.kind == 'YIELD' for e in p.events) and not any(e.kind == 'fail' for e in p.events):
            pass
    rep.ob('R16.2', f.key, f.where(), not bad, 'a child whose body raised exits with a non-zero status' if not bad else
           'a child whose body raised exits with status 0: the parent cannot see the failure and returns a partial result', statement='child-failure-status')
    okc = [p for p in child if not any(e.kind == 'except' for e in p.events) and any(e.kind == 'YIELD' for e in p.events)]
    bad = [p for p in okc if const([e for e in p.events if e.kind == 'exit'][-1].node.value.args[0]) != 0]
    rep.ob('R16.2', f.key, f.where(), not bad and bool(okc), 'a child that completed its share exits with status 0' if not bad and okc else
           'a successful child does not exit with status 0', statement='child-success-status')
    # parent failure path
    pf = [p for p in parent if any(e.kind == 'except' for e in p.events)]
    if not pf:
        raise AnalysisError('_fork: no parent failure path found')
    bad = [p for p in pf if p.end != 'raise']
    rep.ob('R16.2', f.key, f.where(), not bad, 'a failure in the parent (or while forking) is re-raised' if not bad else
           'the parent swallows an exception raised inside the parallel region', statement='parent-reraises')
    kill_loops = [s for s in find_stmts(f.body, lambda s: isinstance(s, ast.For)) if src(s.iter) == 'child_pids' and any(src(c.func) == 'os.kill' for c in calls_in(s))]
    ok = len(kill_loops) == 1 and any(src(c.func) == 'os.kill' and src(c.args[0]) == src(kill_loops[0].target) and 'SIGKILL' in src(c.args[1]) for c in calls_in(kill_loops[0]))
    handler_has = ok and any(any(e.kind == 'except' for e in p.events) for p in pf)
    rep.ob('R16.2', f.key, f.where(kill_loops[0]) if kill_loops else f.where(), ok, 'on failure the parent kills every recorded child' if ok else
           'the parent does not SIGKILL every pid in child_pids on failure: orphaned workers keep writing into shared arrays', statement='parent-kills-children')
    rec = [s for s in find_stmts(f.body, lambda s: isinstance(s, ast.Expr)) if src(s.value).replace(' ', '') == 'child_pids.append(pid)']
    rep.ob('R16.2', f.key, f.where(rec[0]) if rec else f.where(), len(rec) == 1, 'every forked pid is recorded', statement='pids-recorded')
    # parent success path waits for all and raises on failures
    ps = [p for p in parent if not any(e.kind == 'except' for e in p.events) and any(e.kind == 'YIELD' for e in p.events) and not any(e.kind == 'fail' for e in p.events)]
    if not ps:
        raise AnalysisError('_fork: no parent success path found')
    bad = [p for p in ps if not any(e.kind == 'WAIT' for e in p.events)]
    rep.ob('R16.2', f.key, f.where(), not bad, 'the parent waits for its children before leaving the region' if not bad else
           'the parent can leave the parallel region without waiting for the children: results are read before they are written', statement='parent-waits')
    ok = wait_stmt is not None
    rep.ob('R16.2', f.key, f.where(wait_stmt) if ok else f.where(), ok, f'failures are counted as `not _wait(pid)` over every child into `{wait_ind}`' if ok else f'the failure count is not the number of `not _wait(pid)` over every pid in child_pids: {wait_ind}', statement='count-failures')
    bad = []
    for p in ps:
        iw = p.index(lambda e: e.kind == 'WAIT')
        pos = {f'{wait_ind}': True, f'{wait_ind} > 0': True, f'{wait_ind} != 0': True, f'{wait_ind} >= 1': True, f'0 < {wait_ind}': True,
               f'not {wait_ind}': False, f'{wait_ind} == 0': False}
        conds = [e for e in p.events[max(iw, 0):] if e.kind == 'cond' and src(e.node) in pos and not isinstance(getattr(e.node, '_owner', None), ast.For)]
        if not conds:
            bad.append(p)
        elif conds[-1].data[0] == pos[src(conds[-1].node)] and p.end != 'raise':
            bad.append(p)
    rep.ob('R16.2', f.key, f.where(), not bad, 'a failed child makes the parent raise' if not bad else
           'the parent returns normally although a child failed: a partial result is handed out', statement='raise-on-child-failure')
    # nested forks disabled
    ok = any(isinstance(w, ast.With) and any(src(i.context_expr) == 'maxprocs(1)' for i in w.items) and any(isinstance(b, ast.Expr) and isinstance(b.value, ast.Yield) for b in w.body) for w in ast.walk(f.node))
    rep.ob('R16.2', f.key, f.where(), ok, 'the region body runs under maxprocs(1) (no nested forks)' if ok else 'the body no longer runs under maxprocs(1): nested loops would fork again', statement='no-nested-fork')

    w = model.func('parallel:_wait')
    facts = facts_at(w.node, lambda s: isinstance(s, ast.Return) and const(s.value) is True)
    has_exited = any(src(n) == 'os.WIFEXITED(status)' and v for n, v in facts.facts.values())
    svar = [s for s in find_stmts(w.body, lambda s: isinstance(s, ast.Assign)) if src(s.value) == 'os.WEXITSTATUS(status)']
    zero = bool(svar) and any((src(n) == src(svar[0].targets[0]) and not v) or (src(n) == f'{src(svar[0].targets[0])} == 0' and v) for n, v in facts.facts.values())
    rep.ob('R16.2', w.key, w.where(), has_exited and zero, '_wait returns True only for a normal exit with status 0' if has_exited and zero else
           '_wait can return True for a child that was signalled or exited non-zero', statement='wait-true-only-on-zero')
    rets = find_stmts(w.body, lambda s: isinstance(s, ast.Return))
    ok = len(rets) == 2 and const(rets[-1].value) is False
    rep.ob('R16.2', w.key, w.where(), ok, 'every other outcome returns False', statement='wait-false-otherwise')
    ok = any(src(c.func) == 'os.waitpid' and src(c.args[0]) == 'pid' and const(c.args[1]) == 0 for c in calls_in(w.node))
    rep.ob('R16.2', w.key, w.where(), ok, 'waitpid blocks on the given pid', statement='waitpid-blocking')

    fk = model.func('parallel:fork')
    facts = facts_at(fk.node, lambda s: isinstance(s, ast.Return) and src(s.value) == '_fork(nprocs)')
    ok = any(src(n).replace(' ', '') == 'nprocs<=1' and not v for n, v in facts.facts.values())
    rep.ob('R16.2', fk.key, fk.where(), ok, 'forking happens only for nprocs > 1 (capped by maxprocs)' if ok else 'fork() no longer short-cuts nprocs <= 1', statement='fork-guard')
    cap = any(isinstance(s, ast.If) and 'nprocs > maxprocs.current' in src(s.test) and any(src(b).replace(' ', '') == 'nprocs=maxprocs.current' for b in s.body) for s in fk.body)
    rep.ob('R16.2', fk.key, fk.where(), cap, 'nprocs is capped by the configured maxprocs', statement='fork-cap')


# --------------------------------------------------------------------------- R16.3 / R16.4

STMT_CLASSES = {'Exec', 'Assign', 'Assert', 'Raise', 'If', 'With', 'ForLoop', 'Global'}

# who may construct generated statements outside _BlockBuilder (confirmed by reading; one reason each)
ALLOWED_OUTSIDE = {
    ('evaluable:compile', 'ForLoop'): 'loop assembly after all statements were emitted',
    ('evaluable:compile', 'With'): 'iteration context (ctxrange / percentage) around a loop',
    ('evaluable:compile', 'Exec'): 'setflags(write=False) freeze and stats logging in the parent, after the loops',
    ('evaluable:compile', 'Assign'): 'first_run flag / stats table in the parent',
    ('evaluable:compile', 'Global'): 'global declaration of the cached constants',
    ('evaluable:compile', 'If'): 'first_run dispatch',
    ('evaluable:_BlockTreeBuilder.new_empty_array_for_evaluable', 'Assign'): 'creation of the multiprocessing.Lock in block (0,), before any fork',
    ('evaluable:_BlockTreeBuilder.get_block_for_evaluable', 'With'): 'stats timer around a block (stats disables parallel compilation)',
}


def check_builder(model, rep):
    b = model.cls('evaluable:_BlockBuilder')
    nstmt = 0
    for mem in b.members.values():
        f = mem.func
        if f is None:
            continue
        for c in calls_in(f.node):
            if isinstance(c.func, ast.Attribute) and src(c.func.value) == '_pyast' and c.func.attr in STMT_CLASSES:
                nstmt += 1
                kind = c.func.attr
                exprs = [src(a) for a in c.args if not (isinstance(a, ast.Name) and a.id in ('body', 'with_block'))] + \
                        [src(k.value) for k in c.keywords if k.arg not in ('body', 'omit_if_body_is_empty')]
                # find the append(...) holding this statement and its receiver
                app = next((a for a in calls_in(f.node) if method_name(a) == 'append' and any(x is c for x in ast.walk(a))), None)
                if app is None:
                    rep.ob('R16.3', f.key, f.where(c), False, f'generated {kind} statement is not appended to a block', statement=f'{kind}-appended')
                    continue
                recv = app.func.value
                recv_txt = src(recv)
                if f.name == '_block_for' and kind == 'With':
                    loops = [l for l in ast.walk(f.node) if isinstance(l, ast.For) and '_iter_locks' in src(l.iter) and isinstance(l.target, ast.Name)]
                    body_arg = c.args[1] if len(c.args) == 2 else next((k.value for k in c.keywords if k.arg == 'body'), None)
                    ok = len(loops) == 1 and len(c.args) >= 1 and body_arg is not None and src(c.args[0]) == loops[0].target.id and any(x is c for x in ast.walk(loops[0]))
                    if ok:
                        # ... and what is handed out is the BODY of the innermost with: after With(lock, B) is appended to X, X becomes B, and X is returned
                        lp = loops[0]
                        holder, inner = src(recv), body_arg
                        k = next((i for i, st in enumerate(lp.body) if any(x is c for x in ast.walk(st))), None)
                        rebound = isinstance(inner, ast.Name) and any(isinstance(st, ast.Assign) and len(st.targets) == 1 and src(st.targets[0]) == holder and src(st.value) == inner.id for st in lp.body[k + 1:])
                        fresh = isinstance(inner, ast.Name) and any(isinstance(st, ast.Assign) and src(st.targets[0]) == inner.id and src(st.value) == '_pyast.Block()' for st in lp.body[:k])
                        rets = find_stmts(f.body, lambda s_: isinstance(s_, ast.Return))
                        ok = rebound and fresh and bool(rets) and all(r_.value is not None and src(r_.value) == holder for r_ in rets)
                    rep.ob('R16.3', f.key, f.where(c), ok, '_block_for nests one `with lock` per lock of the shared arrays mentioned' if ok else
                           '_block_for no longer hands out the body of a `with lock` nested once per lock returned by _iter_locks (the With must be appended, its fresh body must become the current block and be returned): '
                           'the generated statement would be placed outside the lock of the shared array it updates', statement='nest-locks')
                    continue
                # resolve receiver: self._block_for(args) directly or a local assigned from it on every branch
                covers = None

                def branches(e, cs=()):
                    # self._block_for(...) calls an expression may evaluate to, with the conditions under which it does (conditional expressions)
                    if isinstance(e, ast.IfExp):
                        test = deep_resolved(f.node, e.test)     # the test may have been given a name
                        t = tuple((src(a), v) for a, v in decompose(test, True)), tuple((src(a), v) for a, v in decompose(test, False))
                        l, r = branches(e.body, cs + t[0]), branches(e.orelse, cs + t[1])
                        return None if l is None or r is None else l + r
                    if isinstance(e, ast.Call) and src(e.func) == 'self._block_for':
                        return [({src(a) for a in e.args}, cs)]
                    return None
                direct = branches(recv)
                if direct is not None:
                    covers = [c_ for c_, _ in direct]
                    defconds = [cs for _, cs in direct]
                elif isinstance(recv, ast.Name):
                    defs = [s for s in find_stmts(f.body, lambda s: isinstance(s, ast.Assign)) if src(s.targets[0]) == recv.id]
                    if defs and all(branches(d.value) is not None for d in defs):
                        conds = enclosing_conditions(f.node)
                        covers, defconds = [], []
                        for d in defs:
                            for c_, cs in branches(d.value):
                                covers.append(c_)
                                defconds.append(tuple(conds.get(id(d), ())) + cs)
                if kind == 'If':
                    # allowed on self._block when the condition was pre-evaluated under _needs_lock
                    pre = [s for s in find_stmts(f.body, lambda s: isinstance(s, ast.If)) if src(s.test) == f'self._needs_lock({exprs[0]})']
                    ok = recv_txt == 'self._block' and len(pre) == 1 and any(isinstance(x, ast.Assign) and src(x.targets[0]) == exprs[0] and 'self.eval(' in src(x.value) for x in pre[0].body) \
                        and pre[0].lineno < c.lineno
                    rep.ob('R16.3', f.key, f.where(c), ok, 'a condition that reads a shared array is evaluated under the lock before the if statement' if ok else
                           'if_ appends an If whose condition may read a shared array without evaluating it under the lock first', statement='if-preevaluated')
                    continue
                if covers is None:
                    rep.ob('R16.3', f.key, f.where(c), False,
                           f'`{src(app)[:80]}` appends a generated {kind} to `{recv_txt}` instead of self._block_for(...): the statement is not wrapped in the lock of the shared arrays it touches',
                           statement=f'{f.name}: {kind} via _block_for')
                    continue
                missing_all = []
                for i, cov in enumerate(covers):
                    missing = [e for e in exprs if e not in cov]
                    if missing:
                        # the only licensed omission: the bare-Variable lhs of an assignment
                        if kind == 'Assign' and missing == [exprs[0]]:
                            cs = defconds[i]
                            if (f'isinstance({exprs[0]}, _pyast.Variable)', True) in cs:
                                continue
                        missing_all.append(missing)
                ok = not missing_all
                rep.ob('R16.3', f.key, f.where(c), ok, f'{kind}({", ".join(exprs)}) is emitted into _block_for over all its expressions' if ok else
                       f'{kind} statement mentions {missing_all[0]} but _block_for is not given it: a shared array inside that expression is accessed without its lock',
                       statement=f'{f.name}: {kind} via _block_for')
    if nstmt < 6:
        raise AnalysisError(f'_BlockBuilder: only {nstmt} statement constructions found')
    # _iter_locks / _needs_lock look at the variables of every argument
    # _iter_locks / _needs_lock are INTERPRETED (sa.miniexec) on abstract expressions: the locks of exactly the shared arrays that any positional or keyword
    # argument mentions, each once; _needs_lock answers whether the condition mentions a shared array
    import itertools as _it
    from sa.miniexec import MiniExec, Sym, Returned, RaisedIn, AssertionFailed
    from sa.algebra import Unsupported
    il = b.members['_iter_locks'].func
    nl = b.members['_needs_lock'].func
    shared = {'a': 'lock-a', 'b': 'lock-b', 'c': 'lock-c'}

    def interp(fn, env):
        ex = MiniExec(dict(env, itertools=Sym(chain=_it.chain), dict=dict, set=set, frozenset=frozenset))
        try:
            ex.run(fn.node.body)
            return list(ex.yielded)
        except Returned as r:
            v = r.value
            return list(v) + list(ex.yielded) if not isinstance(v, (bool, type(None))) else v
    bad_il = bad_nl = None
    try:
        for vars_pos, vars_kw in (([['a', 'x'], ['y']], {'out': ['b', 'a']}), ([[]], {}), ([['x']], {'k': ['c']}), ([['b'], ['b', 'c']], {})):
            for mk in (frozenset,):
                me = Sym(_parent=Sym(_shared_arrays=dict(shared)))
                pn = [a_.arg for a_ in il.node.args.posonlyargs + il.node.args.args]
                env = {pn[0]: me, il.node.args.vararg.arg: tuple(Sym(variables=mk(v)) for v in vars_pos), il.node.args.kwarg.arg: {k: Sym(variables=mk(v)) for k, v in vars_kw.items()}}
                got = interp(il, env)
                want = {shared[v] for vs in vars_pos + list(vars_kw.values()) for v in vs if v in shared}
                if not isinstance(got, list) or sorted(got) != sorted(want):
                    bad_il = bad_il or (vars_pos, vars_kw, got, sorted(want))
        for vs in (['x'], ['x', 'b'], [], ['a']):
            for mk in (frozenset,):
                me = Sym(_parent=Sym(_shared_arrays=dict(shared)))
                pn = [a_.arg for a_ in nl.node.args.posonlyargs + nl.node.args.args]
                got = interp(nl, {pn[0]: me, pn[1]: Sym(variables=mk(vs))})
                if bool(got) != any(v in shared for v in vs):
                    bad_nl = bad_nl or (vs, got)
    except (Unsupported, AssertionFailed, RaisedIn, TypeError, ValueError, KeyError, IndexError, AttributeError) as e:
        raise AnalysisError(f'_BlockBuilder._iter_locks/_needs_lock use a construct the interpreter does not know: {type(e).__name__}: {e}')
    rep.ob('R16.3', il.key, il.where(), bad_il is None, '_iter_locks maps every variable of every positional and keyword argument to its lock' if bad_il is None else
           f'_iter_locks no longer covers the variables of all positional and keyword arguments: for arguments mentioning {bad_il[0]} and keywords {bad_il[1]} it yields {bad_il[2]} instead of {bad_il[3]}', statement='iter-locks-complete')
    rep.ob('R16.3', nl.key, nl.where(), bad_nl is None, '_needs_lock tests every variable of the condition' if bad_nl is None else
           f'_needs_lock answers {bad_nl[1]!r} for a condition over {bad_nl[0]}', statement='needs-lock')
    # array_* helpers go through exec
    for name in ('array_copy', 'array_iadd', 'array_imul', 'array_add_at', 'array_fill_zeros'):
        f = b.members[name].func

        def via_exec(fn, depth=0):
            # the body is one statement: a call of self.exec, or of a method of the same class that is such a wrapper of self.exec itself
            body = [s_ for s_ in fn.body if not (isinstance(s_, ast.Expr) and isinstance(s_.value, ast.Constant))]
            if len(body) != 1 or not isinstance(body[0], (ast.Expr, ast.Return)) or not isinstance(body[0].value, ast.Call):
                return False
            callee = body[0].value.func
            if src(callee) == 'self.exec':
                return len([c for c in calls_in(fn.node) if src(c.func) == 'self.exec']) == 1
            if depth < 2 and isinstance(callee, ast.Attribute) and src(callee.value) == 'self' and callee.attr in b.members and b.members[callee.attr].func is not None \
                    and callee.attr not in ('array_copy', 'array_iadd', 'array_imul', 'array_add_at', 'array_fill_zeros'):
                return via_exec(b.members[callee.attr].func, depth + 1)
            return False
        ok = via_exec(f)
        rep.ob('R16.3', f.key, f.where(), ok, f'{name} emits one statement through exec (hence through _block_for)' if ok else f'{name} no longer emits through self.exec', statement=f'{name}-via-exec')
    # who may construct statements elsewhere
    ev = model.module('evaluable')
    seen = set()
    for f in model.functions.values():
        if f.module.short in ('_pyast', 'testing') or (f.cls is not None and f.cls.name == '_BlockBuilder'):
            continue
        owner = f.key.split('.<locals>')[0]
        for c in calls_in(f.node, nested=False):
            if isinstance(c.func, ast.Attribute) and src(c.func.value) == '_pyast' and c.func.attr in STMT_CLASSES:
                k = (owner, c.func.attr)
                if k in ALLOWED_OUTSIDE:
                    seen.add(k)
                    continue
                rep.ob('R16.3', f.key, f.where(c), False,
                       f'`{src(c)[:70]}` constructs a generated {c.func.attr} statement outside _BlockBuilder: it bypasses _block_for and is never wrapped in the lock of a shared array',
                       statement=f'constructs _pyast.{c.func.attr}')
    rep.ob('R16.3', 'evaluable:compile', ev.relpath + ':1', len(seen) >= 6, f'{len(seen)} listed infrastructure sites construct statements directly (each with a recorded reason)', statement='who-may-construct')


def check_shared_alloc(model, rep):
    f = model.func('evaluable:_BlockTreeBuilder.new_empty_array_for_evaluable')
    ifs = [s for s in f.body if isinstance(s, ast.If) and 'self._parallel' in src(s.test)]
    if len(ifs) != 1:
        raise AnalysisError('new_empty_array_for_evaluable: the parallel branch was not found')
    br = ifs[0]
    t = src(br.test).replace(' ', '')
    ok = t in ('self._parallelandlen(out_block_id)==1', 'len(out_block_id)==1andself._parallel')
    rep.ob('R16.4', f.key, f.where(br), ok, 'arrays living outside every loop are the shared ones under parallel compilation' if ok else
           f'the condition `{src(br.test)}` selecting shared allocation changed', statement='shared-condition')
    body = ' ; '.join(src(s) for s in br.body)
    sh = any(isinstance(s, ast.Assign) and src(s.targets[0]) == 'py_alloc' and "get_attr('shempty')" in src(s.value) and "Variable('parallel')" in src(s.value) for s in br.body)
    reg = any(isinstance(s, ast.Assign) and src(s.targets[0]) == 'self._shared_arrays[out]' and src(s.value) == 'lock' for s in br.body)
    lockdef = any(isinstance(s, ast.Assign) and src(s.targets[0]) == 'lock' and 'get_lock_for_evaluable' in src(s.value) for s in br.body)
    emit = any(isinstance(s, ast.Expr) and src(s.value).replace(' ', '').startswith('self._blocks[0,].append(_pyast.Assign(lock,') and "get_attr('Lock').call()" in src(s.value) and 'multiprocessing' in src(s.value) for s in br.body)
    rep.ob('R16.4', f.key, f.where(br), sh, 'the shared branch allocates with parallel.shempty' if sh else 'the shared branch does not allocate with parallel.shempty: children write into private copies', statement='shared-shempty')
    rep.ob('R16.4', f.key, f.where(br), reg and lockdef, 'the shared array is registered with its lock in _shared_arrays' if reg and lockdef else
           'the shared array is not registered in _shared_arrays: no statement touching it will be locked', statement='shared-registered')
    rep.ob('R16.4', f.key, f.where(br), emit, 'the multiprocessing.Lock is created in block (0,), i.e. before any fork' if emit else
           'the lock is not created in block (0,): each process would create its own lock', statement='lock-prefork')
    other = any(isinstance(s, ast.Assign) and src(s.targets[0]) == 'py_alloc' and "get_attr('empty')" in src(s.value) and "Variable('numpy')" in src(s.value) for s in br.orelse)
    rep.ob('R16.4', f.key, f.where(br), other, 'all other arrays are process-local numpy.empty', statement='local-empty')
    use = [s for s in f.body if isinstance(s, ast.Expr) and 'assign_to(out, py_alloc.call(' in src(s.value)]
    rep.ob('R16.4', f.key, f.where(), len(use) == 1, 'the chosen allocator creates `out`', statement='alloc-used')
    # compile(): ctxrange only for outermost loops under compile_parallel; compile_parallel definition
    c = model.func('evaluable:compile')
    cp = [s for s in find_stmts(c.body, lambda s: isinstance(s, ast.Assign)) if src(s.targets[0]) == 'compile_parallel']
    ok = len(cp) == 1 and 'parallel.maxprocs.current > 1' in src(cp[0].value) and 'not stats' in src(cp[0].value)
    rep.ob('R16.4', c.key, c.where(cp[0]) if cp else c.where(), ok, 'parallel compilation needs maxprocs > 1 and no statistics' if ok else 'compile_parallel definition changed', statement='compile-parallel-def')
    conds = enclosing_conditions(c.node)
    ctx = [x for x in ast.walk(c.node) if isinstance(x, ast.Call) and "get_attr('ctxrange')" in src(x.func)]
    ok = len(ctx) == 1 and any(t.replace(' ', '') == 'len(loop_id)==1' and v for t, v in conds.get(id(ctx[0]), ())) and any(t == 'compile_parallel' and v for t, v in conds.get(id(ctx[0]), ()))
    rep.ob('R16.4', c.key, c.where(ctx[0]) if ctx else c.where(), ok, 'only outermost loops (len(loop_id) == 1) iterate over parallel.ctxrange' if ok else
           'ctxrange is emitted for loops other than the outermost ones (or without compile_parallel): inner loops would fork inside workers or serial runs would fork', statement='ctxrange-outermost')
    pb = [x for x in ast.walk(c.node) if isinstance(x, ast.Call) and src(x.func) == '_BlockTreeBuilder']
    ok = len(pb) == 1 and 'compile_parallel' in [src(a) for a in pb[0].args]
    rep.ob('R16.4', c.key, c.where(), ok, 'the builder is told whether outer loops are parallel', statement='builder-parallel-flag')
    # shempty itself: anonymous shared mapping unless maxprocs == 1
    sh = model.func('parallel:shempty')
    txt = src(sh.node)
    ok = 'mmap.mmap(-1, size)' in txt and 'numpy.frombuffer(' in txt and any(isinstance(s, ast.If) and 'maxprocs.current == 1' in src(s.test) for s in sh.body)
    rep.ob('R16.4', sh.key, sh.where(), ok, 'shempty maps anonymous shared memory (private numpy.empty only when maxprocs == 1 or size 0)' if ok else 'shempty no longer returns an anonymous shared mapping', statement='shempty-mmap')
    sz = model.func('parallel:shzeros')
    ok = 'shempty(shape, dtype=dtype)' in src(sz.node) and '.fill(0)' in src(sz.node)
    rep.ob('R16.4', sz.key, sz.where(), ok, 'shzeros = shempty + fill(0)', statement='shzeros')


# --------------------------------------------------------------------------- R16.5

def check_parallel_regions(model, rep):
    n = 0
    for f in model.functions.values():
        if isinstance(f.node, ast.Lambda) or f.module.short in ('parallel', 'testing'):
            continue
        for w in walk_no_nested(f.node):
            if not isinstance(w, ast.With):
                continue
            if not any(isinstance(i.context_expr, ast.Call) and src(i.context_expr.func) in ('parallel.ctxrange', 'parallel.fork') for i in w.items):
                continue
            n += 1
            stored = {}
            for s in ast.walk(w):
                tg = []
                if isinstance(s, ast.Assign):
                    tg = s.targets
                elif isinstance(s, ast.AugAssign):
                    tg = [s.target]
                for t in tg:
                    if isinstance(t, ast.Subscript) and isinstance(t.value, ast.Name):
                        stored.setdefault(t.value.id, s)
            after = [s for s in f.body if s.lineno > w.end_lineno]
            read_after = {x.id for s in after for x in ast.walk(s) if isinstance(x, ast.Name) and isinstance(x.ctx, ast.Load)}
            for name, st in sorted(stored.items()):
                if name not in read_after:
                    continue
                defs = [s for s in find_stmts(f.body, lambda s: isinstance(s, ast.Assign)) if src(s.targets[0]) == name and s.lineno < w.lineno]
                ok = bool(defs) and all(isinstance(d.value, ast.Call) and src(d.value.func) in ('parallel.shempty', 'parallel.shzeros') for d in defs)
                rep.ob('R16.5', f.key, f.where(st), ok, f'`{name}` is written by the workers and read by the parent: allocated with parallel.shempty/shzeros before the region' if ok else
                       f'`{name}` is written inside the parallel region and read after it but is allocated with `{src(defs[-1].value)[:40] if defs else "?"}`: writes of child processes are lost',
                       statement=f'shared result {name}')
    if n < 1:
        raise AnalysisError('no parallel region (with parallel.ctxrange/fork) found outside parallel.py')
    rep.unit('parallel_regions', n)
    # _locate: every claimed index gets its slot assigned on every path through the loop body
    f = model.func('topology:Topology._locate')
    loops = [s for s in ast.walk(f.node) if isinstance(s, ast.For) and src(s.iter) == 'ipoints' and src(s.target) == 'ipoint' and len(s.body) > 1]
    if len(loops) != 1:
        raise AnalysisError('Topology._locate: the loop over claimed points was not found')
    loop = loops[0]
    fake = ast.FunctionDef(name='_locate_body', args=ast.arguments(posonlyargs=[], args=[], kwonlyargs=[], kw_defaults=[], defaults=[]), body=loop.body, decorator_list=[], lineno=loop.lineno)

    def on_stmt(s, st):
        if isinstance(s, ast.Assign) and src(s.targets[0]) == 'ielems[ipoint]':
            return (Event('SLOT', s, src(s.value)),)
        return ()
    pe = PathEnumerator(fake, on_stmt=on_stmt, unroll=1, max_states=200000)
    paths = pe.paths()
    rep.unit('locate_body_paths', len(paths))
    bad = [p for p in paths if p.end in ('fall', 'return') and not any(e.kind == 'SLOT' for e in p.events)]
    rep.ob('R16.5', f.key, f.where(loop), not bad, f'every one of the {len(paths)} paths through the body of a claimed point assigns ielems[ipoint] (found element or -1)' if not bad else
           'a path through the body of a claimed point leaves ielems[ipoint] unassigned: the uninitialised shared slot is returned as an element index', statement='slot-assigned')
    # the post-region check reads the missing marker
    after = [s for s in f.body if s.lineno > loop.end_lineno]
    txt = ' ; '.join(src(s) for s in after)
    # ... directly or in a private helper of the module that the statements after the region call with the element indices
    for c_ in [c for s_ in after for c in ast.walk(s_) if isinstance(c, ast.Call) and isinstance(c.func, ast.Name)]:
        h_ = model.functions.get(f'topology:{c_.func.id}')
        if h_ is not None and any(src(a_) == 'ielems' for a_ in c_.args):
            txt += ' ; ' + src(h_.node)
    ok = '-1 not in ielems' in txt and 'raise LocateError' in txt and 'skip_missing' in txt
    rep.ob('R16.5', f.key, f.where(), ok, 'after the region a missing marker either raises LocateError or is filtered (skip_missing)' if ok else
           'the post-region test for missing points changed', statement='missing-raises')


def check_out_aliases(model, rep):
    """R16.6: the lock of a shared output array is found through the NAME of the variable occurring in the emitted statement
    (_BlockBuilder._iter_locks looks the statement's variables up in _shared_arrays).  Inside the in-place protocol
    (_compile_with_out) everything that denotes (a view of) the output must therefore remain an expression over `out`; binding it
    to a fresh variable (eval / assign_to(new_var ...)) yields an alias that is not registered, and later writes through the alias are
    emitted without the lock."""
    bb = model.cls('evaluable:_BlockBuilder')
    il = bb.members.get('_iter_locks')
    if il is None or '_shared_arrays.get' not in src(il.func.node) or '.variables' not in src(il.func.node):
        raise AnalysisError('_BlockBuilder._iter_locks no longer selects locks by variable name: R16.6 needs review')
    n = 0
    for f in model.functions.values():
        if f.name != '_compile_with_out' or f.module.short != 'evaluable':
            continue
        pos = params(f.node)[0]
        if len(pos) < 3:
            raise AnalysisError(f'{f.key}: unexpected signature {pos}')
        out = pos[2]
        n += 1
        taint = {out}
        changed = True
        while changed:
            changed = False
            for s_ in ast.walk(f.node):
                if isinstance(s_, ast.Assign) and len(s_.targets) == 1 and isinstance(s_.targets[0], ast.Name) and s_.targets[0].id not in taint:
                    if taint & {x.id for x in ast.walk(s_.value) if isinstance(x, ast.Name)}:
                        taint.add(s_.targets[0].id)
                        changed = True
        bad = None
        for c in calls_in(f.node):
            m = method_name(c)
            if m == 'eval' or (m == 'assign_to' and c.args and 'new_var' in src(c.args[0])):
                rhs = c.args[-1] if c.args else None
                if rhs is not None and taint & {x.id for x in ast.walk(rhs) if isinstance(x, ast.Name)}:
                    bad = c
                    break
        ok = bad is None
        rep.ob('R16.6', f.key, f.where(bad) if bad is not None else f.where(), ok, f'views of `{out}` ({", ".join(sorted(taint - {out})) or "none"}) stay expressions over `{out}`: writes through them carry its lock' if ok else
               f'`{src(bad)[:80]}` binds a view of the output `{out}` to a fresh variable: the alias is not in _shared_arrays, so in a parallel loop writes through it (numpy.add.at, +=) are emitted without `with lock` '
               'and concurrent workers lose updates', statement='out-alias')
    if n < 6:
        raise AnalysisError(f'only {n} _compile_with_out implementations found')


def _leaves(stmts):
    return bool(stmts) and isinstance(stmts[-1], (ast.Break, ast.Continue, ast.Return, ast.Raise))


def _exposed_reads(stmts, defined):
    """(names read before they are bound on some path through the statement list, names bound on every path) - a forward scan that
    merges branches by intersection; loop bodies may run zero times; names of comprehensions and lambdas are their own."""
    exposed = set()
    defined = set(defined)

    def reads(node, local=frozenset()):
        out = set()
        if isinstance(node, (ast.ListComp, ast.SetComp, ast.GeneratorExp, ast.DictComp)):
            loc = set(local)
            for g in node.generators:
                out |= reads(g.iter, frozenset(loc))
                loc |= {n.id for n in ast.walk(g.target) if isinstance(n, ast.Name)}
                for c in g.ifs:
                    out |= reads(c, frozenset(loc))
            for part in ([node.key, node.value] if isinstance(node, ast.DictComp) else [node.elt]):
                out |= reads(part, frozenset(loc))
            return out
        if isinstance(node, ast.Lambda):
            a = node.args
            loc = set(local) | {x.arg for x in a.posonlyargs + a.args + a.kwonlyargs + ([a.vararg] if a.vararg else []) + ([a.kwarg] if a.kwarg else [])}
            return reads(node.body, frozenset(loc))
        if isinstance(node, ast.Name):
            return {node.id} if isinstance(node.ctx, ast.Load) and node.id not in local else set()
        for ch in ast.iter_child_nodes(node):
            out |= reads(ch, local)
        return out

    def stores(node):
        return {n.id for n in ast.walk(node) if isinstance(n, ast.Name) and isinstance(n.ctx, ast.Store)}

    for s in stmts:
        if isinstance(s, (ast.FunctionDef, ast.AsyncFunctionDef, ast.ClassDef)):
            defined.add(s.name)
        elif isinstance(s, ast.If):
            exposed |= reads(s.test) - defined
            e1, d1 = _exposed_reads(s.body, defined)
            e2, d2 = _exposed_reads(s.orelse, defined)
            exposed |= e1 | e2
            defined = d2 if _leaves(s.body) else d1 if _leaves(s.orelse) else d1 & d2
        elif isinstance(s, (ast.For, ast.While)):
            if isinstance(s, ast.For):
                exposed |= reads(s.iter) - defined
                inner = defined | stores(s.target)
            else:
                exposed |= reads(s.test) - defined
                inner = set(defined)
            e1, d1 = _exposed_reads(s.body, inner)
            exposed |= e1
            if isinstance(s, ast.While):
                exposed |= reads(s.test) - d1 - defined
            e2, d2 = _exposed_reads(s.orelse, defined if isinstance(s, ast.While) else defined)
            exposed |= e2
            # after the loop only what was bound before it is certain (the body may not have run; `break` skips the else clause)
        elif isinstance(s, ast.With):
            for it in s.items:
                exposed |= reads(it.context_expr) - defined
                if it.optional_vars is not None:
                    defined |= stores(it.optional_vars)
            e1, d1 = _exposed_reads(s.body, defined)
            exposed |= e1
            defined = d1
        elif isinstance(s, ast.Try):
            e1, d1 = _exposed_reads(s.body, defined)
            exposed |= e1
            after = None
            for h in s.handlers:
                eh, dh = _exposed_reads(h.body, defined | ({h.name} if h.name else set()))
                exposed |= eh
                if not _leaves(h.body):     # a handler that falls through continues after the try with only what it bound itself
                    after = dh if after is None else after & dh
            e2, d2 = _exposed_reads(s.orelse, d1)
            after = d2 if after is None else after & d2
            e3, d3 = _exposed_reads(s.finalbody, defined)
            exposed |= e2 | e3
            defined = after | d3
        else:
            if isinstance(s, ast.AugAssign) and isinstance(s.target, ast.Name):
                exposed |= ({s.target.id} | reads(s.value)) - defined
                defined.add(s.target.id)
            else:
                exposed |= reads(s) - defined
                defined |= stores(s)
    return exposed, defined


def check_parallel_iterations(model, rep, rule='R16.8'):
    """Which iterations of a `parallel.ctxrange` loop a process executes depends on the scheduling of the workers, so an iteration may not read a
    local that an earlier iteration of the same process left behind: every local that the loop body binds is bound, on every path, before it is read in
    the same iteration.  (Results go through shared arrays indexed by the iteration, which are subscript stores, not bindings.)"""
    def loops_of(tree):
        out = []
        for w in ast.walk(tree):
            if isinstance(w, ast.With):
                for it in w.items:
                    if isinstance(it.context_expr, ast.Call) and src(it.context_expr.func) in ('parallel.ctxrange', 'ctxrange') and isinstance(it.optional_vars, ast.Name):
                        out += [l for l in w.body if isinstance(l, ast.For) and src(l.iter) == it.optional_vars.id]
        return out

    def carried(loop):
        bound = {n.id for x in loop.body for n in ast.walk(x) if isinstance(n, ast.Name) and isinstance(n.ctx, ast.Store)}
        exposed, _ = _exposed_reads(loop.body, {n.id for n in ast.walk(loop.target) if isinstance(n, ast.Name)})
        return sorted(exposed & bound)
    # built-in examples: an independent body and one that remembers the previous iteration
    good = ast.parse("with parallel.ctxrange('x', n) as r:\n    for i in r:\n        d = f(i)\n        for j in g(d):\n            k = j\n        out[i] = d\n")
    bad = ast.parse("hint = ()\nwith parallel.ctxrange('x', n) as r:\n    for i in r:\n        for j in chain(hint, g(i)):\n            if ok(j):\n                out[i] = j\n                hint = j,\n                break\n")
    if [carried(l) for l in loops_of(good)] != [[]] or [carried(l) for l in loops_of(bad)] != [['hint']]:
        raise AnalysisError('R16.8: the built-in examples are not decided as expected: the rule is broken')
    n = 0
    for f in model.functions.values():
        if isinstance(f.node, ast.Lambda) or f.module.short not in ('topology', 'sample', 'evaluable', 'function', 'solver', 'parallel', 'mesh'):
            continue
        for loop in loops_of(f.node):
            if not any(loop in getattr(x, 'body', []) for x in ast.walk(f.node) if isinstance(x, ast.With)):
                continue
            n += 1
            c = carried(loop)
            rep.ob(rule, f.key, f.where(loop), not c, 'no iteration of the parallel range reads a local left behind by an earlier one' if not c else
                   f'the iterations of the parallel range are not independent: `{c[0]}` is read before it is bound in the same iteration and bound later in the loop body, so an iteration sees what the '
                   'previous iteration OF THE SAME WORKER left behind - the result depends on how the iterations are distributed over the processes', statement='independent iterations')
    rep.info(f'{rule}: {n} parallel.ctxrange loops in the library (plus 2 built-in examples)')


def run(model, rep, tier):
    rep.explanation = (
        'R16.1 lock discipline of parallel.range: every load/store of the shared counter lies inside `with self._lock`, claim/bound-test/increment form one critical section, the counter is created '
        'before the fork. R16.2 typestate of parallel._fork over all structurally enumerated, flag-sensitive paths (os.fork and the region body may raise, os._exit is a no-return call): every path on '
        'which the process is a child ends in os._exit (non-zero if its body raised), the parent kills all recorded children and re-raises on failure, waits for every child and raises when one failed; '
        '_wait is True only for exit status 0. R16.3 generator lock discipline: every statement _BlockBuilder emits is appended to _block_for over all its expressions (bare-Variable lhs and the '
        'pre-evaluated if-condition are the two licensed exceptions), _block_for nests a With(lock) for each lock found through the variables of its arguments, statement constructors are used outside the '
        'builder only at eight listed infrastructure sites. R16.4 shared allocation, lock registration and pre-fork lock creation are paired; ctxrange only for outermost loops. R16.5 arrays written in a '
        'parallel region and read after it come from shempty/shzeros, and every path through the body of a claimed point assigns its result slot. Decides the discipline that exactly-once execution, mutual '
        'exclusion, visibility and failure propagation depend on, for every schedule; numerical equality and the OS primitives are NOT decided.')
    rep.rule('R16.1', 'shared counter only under its lock; created pre-fork')
    rep.rule('R16.2', '_fork typestate: child always _exit, parent kills/re-raises/waits/raises')
    rep.rule('R16.3', 'every generated statement is emitted under the locks of the shared arrays it mentions')
    rep.rule('R16.4', 'shared allocation <-> lock registration <-> pre-fork lock; ctxrange for outermost loops only')
    rep.rule('R16.6', 'in-place protocol: views of a shared output stay expressions over the registered variable (no unregistered aliases)')
    rep.rule('R16.5', 'results crossing a parallel region are in shared memory; every claimed index is answered')
    check_range(model, rep)
    check_fork(model, rep)
    check_builder(model, rep)
    check_shared_alloc(model, rep)
    check_parallel_regions(model, rep)
    check_out_aliases(model, rep)
    rep.rule('R16.8', 'iterations of a parallel range are independent (no local carried from one iteration to the next)')
    check_parallel_iterations(model, rep)
    rep.rule('R16.7', 'every name loaded in parallel.py resolves (symtable)')
    from rules import names as _names
    _names.check(model, rep, 'R16.7', ('parallel',), 10)
    rep.require('R16.1', 5)
    rep.require('R16.2', 14)
    rep.require('R16.3', 14)
    rep.require('R16.4', 10)
    rep.require('R16.5', 3)
