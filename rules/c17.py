'''C17 Structural identity and hashing are injective and stable.

Decided (encoding discipline, all structural): no address- or seed-dependent source and no unsorted
dict/set iteration feeds a hasher (R17.1); per path, the byte stream fed to each SHA-1 object is a
prefix-free encoding - typed feeds: digest / fixed / delimited header / raw tail (R17.2); every branch
of nutils_hash covers the components that distinguish values of that type (R17.5); hand-written
__nutils_hash__ of the solver classes covers the constructor state with distinct tags (R17.3);
canonicalisation and interning go through one key (R17.4).
Not decided: collision resistance of SHA-1, user-defined __nutils_hash__.
'''

import ast

from sa import AnalysisError
from sa.astutil import dotted, src, stmt_text, params, find_stmts, calls_in, method_name, walk_no_nested, const, target_names
from sa.paths import PathEnumerator, Event
from sa.guards import enclosing_conditions, decompose

HASHLIB_ALGOS = ('sha1', 'sha256', 'md5', 'sha512', 'blake2b')


def is_hashlib_ctor(c):
    return isinstance(c, ast.Call) and isinstance(c.func, ast.Attribute) and c.func.attr in HASHLIB_ALGOS and src(c.func.value) == 'hashlib'


def hasher_functions(model):
    '''Functions that stream into a hash object or define __nutils_hash__.'''
    out = []
    for f in model.functions.values():
        if f.module.short in ('testing',):
            continue
        if isinstance(f.node, ast.Lambda):
            continue
        own = [c for c in calls_in(f.node, nested=False) if is_hashlib_ctor(c) or (isinstance(c.func, ast.Attribute) and c.func.attr == 'update' and _looks_hasher(c.func.value, f))]
        if own or f.name in ('__nutils_hash__', 'nutils_hash'):
            out.append(f)
    return sorted(out, key=lambda f: f.key)


def _looks_hasher(e, f):
    if not isinstance(e, ast.Name):
        return False
    for s in walk_no_nested(f.node):
        if isinstance(s, ast.Assign) and any(isinstance(t, ast.Name) and t.id == e.id for t in s.targets) and is_hashlib_ctor(s.value):
            return True
    return False


# ---------------------------------------------------------------------------
# feed classification
# ---------------------------------------------------------------------------

DIGEST, FIXED, DELIM, RAW, VARNUM, EMPTY, CHUNK = 'digest', 'fixed', 'delimited', 'raw', 'varnum', 'empty', 'chunk'


class Typer:
    def __init__(self, f, outer=()):
        self.f = f
        self.env = {}
        for node in (f.node,) + tuple(outer):
            self._collect(node)

    def _collect(self, root):
        # local names bound to a classifiable expression; loop variables over sorted(<genexpr>) / tuples of digests
        for s in ast.walk(root):
            if isinstance(s, ast.Assign) and len(s.targets) == 1 and isinstance(s.targets[0], ast.Name):
                self.env.setdefault(s.targets[0].id, []).append(('expr', s.value))
            elif isinstance(s, ast.For) and isinstance(s.target, ast.Name):
                self.env.setdefault(s.target.id, []).append(('iter', s.iter))
            elif isinstance(s, ast.While):
                pass

    def enclosing_loop_iter(self, name, at):
        best = None
        for n in ast.walk(self.f.node):
            if isinstance(n, ast.For) and isinstance(n.target, ast.Name) and n.target.id == name and any(x is at for x in ast.walk(n)):
                if best is None or n.lineno >= best.lineno:
                    best = n
        return best.iter if best is not None else None

    def classify(self, e, depth=0, at=None):
        '''list of feed kinds making up the bytes of expression e (concatenation order).'''
        if at is None:
            at = getattr(self, '_at', None)
        if depth > 6:
            return [RAW]
        if isinstance(e, ast.Constant) and isinstance(e.value, (bytes, str)):
            v = e.value
            if len(v) == 0:
                return [EMPTY]
            end = v[-1:] in (b'\0', '\0')
            return [DELIM if end else FIXED]
        if isinstance(e, ast.BinOp) and isinstance(e.op, ast.Add):
            return self.classify(e.left, depth + 1) + self.classify(e.right, depth + 1)
        if isinstance(e, ast.Call):
            name = src(e.func)
            mname = method_name(e)
            if mname == 'nutils_hash':
                return [DIGEST]
            if mname in ('digest',):
                return [DIGEST]
            if mname == 'encode' and isinstance(e.func, ast.Attribute):
                return self.classify_text(e.func.value, depth + 1)
            if mname == 'join' and isinstance(e.func, ast.Attribute) and isinstance(e.func.value, ast.Constant) and e.func.value.value == b'' and len(e.args) == 1:
                k = self.classify_iter_item(e.args[0], depth + 1)     # a concatenation of fixed-length items is a sequence of such feeds
                return k if k in ([DIGEST], [FIXED], [DIGEST, DIGEST]) else [RAW]
            if mname == 'tobytes':
                return [RAW]
            if mname == 'read':
                return [CHUNK]
            if mname == 'bytes' and e.args:
                return [RAW]
        if isinstance(e, ast.Attribute) and e.attr == '__nutils_hash__':
            return [DIGEST]
        if isinstance(e, ast.Name):
            kinds = None
            if at is not None:
                it = self.enclosing_loop_iter(e.id, at)
                if it is not None:
                    return self.classify_iter_item(it, depth + 1)
            for kind, v in self.env.get(e.id, []):
                if kind == 'expr':
                    k = self.classify(v, depth + 1)
                else:
                    k = self.classify_iter_item(v, depth + 1)
                if kinds is None:
                    kinds = k
                elif kinds != k:
                    kinds = [RAW]
            if kinds is not None:
                return kinds
            return [RAW]
        return [RAW]

    def classify_text(self, e, depth):
        '''kinds of the bytes of str expression e after .encode().'''
        if isinstance(e, ast.Constant) and isinstance(e.value, str):
            return self.classify(e, depth)
        if isinstance(e, ast.JoinedStr):
            lastv = e.values[-1] if e.values else None
            if isinstance(lastv, ast.Constant) and isinstance(lastv.value, str) and lastv.value.endswith('\0'):
                return [DELIM]
            return [VARNUM if all(self._is_numberish(v.value) for v in e.values if isinstance(v, ast.FormattedValue)) else RAW]
        if isinstance(e, ast.Call):
            mname = method_name(e)
            if mname == 'format' and isinstance(e.func, ast.Attribute) and isinstance(e.func.value, ast.Constant) and isinstance(e.func.value.value, str):
                fmt = e.func.value.value
                if fmt.endswith('\0'):
                    return [DELIM]
                return [VARNUM if all(self._is_numberish(a) for a in e.args) else RAW]
            if mname in ('str', 'repr') and isinstance(e.func, ast.Name) and e.args:
                return [VARNUM if self._is_numberish(e.args[0]) else RAW]
            if mname == 'hex':
                return [FIXED]
        if isinstance(e, ast.BinOp) and isinstance(e.op, ast.Add):
            return self.classify_text(e.left, depth + 1) + self.classify_text(e.right, depth + 1)
        if isinstance(e, ast.Attribute) and e.attr in ('__name__', '__qualname__', '__module__'):
            return [RAW]
        return [RAW]

    def _is_numberish(self, a):
        t = src(a)
        return t in ('pos', 'count', 'version', 'data') or t.endswith(('.tell()', '_version')) or isinstance(const(a), (int, float))

    def classify_iter_item(self, it, depth):
        # for x in sorted(<genexpr>) / sorted(map(nutils_hash, data)) / the same without sorted / a list that was filled by append
        if depth > 8:
            return [RAW]
        if isinstance(it, (ast.GeneratorExp, ast.ListComp)):
            return self.classify(it.elt, depth + 1)
        if isinstance(it, ast.Call) and method_name(it) == 'map' and it.args and src(it.args[0]).endswith('nutils_hash'):
            return [DIGEST]
        if isinstance(it, ast.Call) and method_name(it) in ('list', 'tuple', 'reversed') and len(it.args) == 1:
            return self.classify_iter_item(it.args[0], depth + 1)
        if isinstance(it, ast.Name):
            kinds = None
            sources = [v for kind, v in self.env.get(it.id, []) if kind == 'expr' and not (isinstance(v, (ast.List, ast.Tuple)) and not v.elts)]
            items = [c.args[0] for c in ast.walk(self.f.node) if isinstance(c, ast.Call) and isinstance(c.func, ast.Attribute) and c.func.attr == 'append'
                     and isinstance(c.func.value, ast.Name) and c.func.value.id == it.id and len(c.args) == 1]
            for k in [self.classify_iter_item(v, depth + 1) for v in sources] + [self.classify(e, depth + 1) for e in items]:
                kinds = k if kinds is None else kinds if kinds == k else [RAW]
            return kinds if kinds is not None else [RAW]
        if isinstance(it, ast.Call) and method_name(it) == 'sorted' and it.args:
            inner = it.args[0]
            if isinstance(inner, ast.Name):
                return self.classify_iter_item(inner, depth + 1)
            if isinstance(inner, (ast.GeneratorExp, ast.ListComp)):
                return self.classify(inner.elt, depth + 1)
            if isinstance(inner, ast.Call) and method_name(inner) == 'map' and inner.args:
                fn = inner.args[0]
                if src(fn).endswith('nutils_hash'):
                    return [DIGEST]
                if isinstance(fn, ast.Attribute) and fn.attr == 'format':
                    return [RAW]
        return [RAW]


def feed_paths(f, model=None):
    '''For each hasher variable in f: list of feed-kind sequences along the enumerated paths.'''
    outer = []
    if model is not None and '.<locals>.' in f.qualname:
        q = f.qualname
        while '.<locals>.' in q:
            q = q.rsplit('.<locals>.', 1)[0]
            pf = model.functions.get(f'{f.module.short}:{q}')
            if pf is not None:
                outer.append(pf.node)
    typer = Typer(f, outer)
    hashers = {}
    for s in walk_no_nested(f.node):
        if isinstance(s, ast.Assign) and len(s.targets) == 1 and isinstance(s.targets[0], ast.Name) and is_hashlib_ctor(s.value):
            hashers[s.targets[0].id] = s

    def on_stmt(s, st):
        evs = []
        if isinstance(s, ast.Assign) and len(s.targets) == 1 and isinstance(s.targets[0], ast.Name) and s.targets[0].id in hashers and is_hashlib_ctor(s.value):
            arg = s.value.args[0] if s.value.args else None
            kinds = typer.classify(arg) if arg is not None else [EMPTY]
            evs.append(Event('feed', s, (s.targets[0].id, kinds, src(arg) if arg is not None else '', True)))
        if isinstance(s, ast.Expr) and isinstance(s.value, ast.Call) and isinstance(s.value.func, ast.Attribute) and s.value.func.attr == 'update' \
                and isinstance(s.value.func.value, ast.Name) and s.value.func.value.id in hashers and s.value.args:
            arg = s.value.args[0]
            typer._at = s
            evs.append(Event('feed', s, (s.value.func.value.id, typer.classify(arg), src(arg), False)))
            typer._at = None
        return evs
    pe = PathEnumerator(f.node, on_stmt=on_stmt, unroll=2)
    seqs = {}
    for p in pe.paths():
        if p.end == 'raise':
            continue
        per = {}
        for e in p.events:
            if e.kind == 'feed':
                per.setdefault(e.data[0], []).append(e)
        for h, evs in per.items():
            seqs.setdefault(h, []).append(evs)
    return hashers, seqs


def check_prefix_free(model, rep, funcs):
    nseq = 0
    for f in funcs:
        hashers, seqs = feed_paths(f, model)
        for h, paths in seqs.items():
            seen = set()
            for evs in paths:
                kinds = []
                for e in evs:
                    for k in e.data[1]:
                        kinds.append((k, e))
                sig = tuple((k, e.node.lineno) for k, e in kinds)
                if sig in seen:
                    continue
                seen.add(sig)
                nseq += 1
                # first feed identifies the type / function: delimited tag or digest key
                first = kinds[0] if kinds else None
                # a feed made of several parts is tagged by its last part being the delimiter (name + '\0')
                first_ev = evs[0]
                fk = first_ev.data[1]
                tag_ok = fk[-1] in (DELIM, DIGEST) if fk else False
                single = len(evs) == 1
                if not single:
                    rep.ob('R17.2', f.key, f.where(first_ev.node), tag_ok,
                           f'hasher `{h}` starts with a self-delimiting type tag `{first_ev.data[2][:70]}`' if tag_ok else
                           f'first feed `{first_ev.data[2][:70]}` of hasher `{h}` is not a terminated tag or digest: the tag can run into the payload',
                           statement=f'tag: {first_ev.data[2][:80]}')
                # prefix-freeness: an undelimited variable-length part followed by another variable-length part
                flat = []
                for e in evs:
                    parts = e.data[1]
                    # a feed whose last part is a terminator delimits the whole feed
                    if parts and parts[-1] == DELIM:
                        flat.append((DELIM, e))
                    else:
                        flat.extend((k, e) for k in parts)
                # consecutive chunks read from one stream are one raw feed
                merged = []
                chunks = set()
                for k, e in flat:
                    if k == CHUNK:
                        if merged and merged[-1][0] == RAW and id(merged[-1][1]) in chunks:
                            continue
                        chunks.add(id(e))
                        merged.append((RAW, e))
                    else:
                        merged.append((k, e))
                flat = merged
                bad = None
                soft = None
                var = [(i, k, e) for i, (k, e) in enumerate(flat) if k in (RAW, VARNUM)]
                for a in range(len(var)):
                    for b in range(a + 1, len(var)):
                        (i, ki, ei), (j, kj, ej) = var[a], var[b]
                        if ki == RAW or kj == RAW or j == i + 1:
                            bad = bad or (ki, ei, ej)
                if not bad and var and var[0][0] < len(flat) - 1:
                    soft = (var[0][1], var[0][2])
                key = f'{h}: ' + ' '.join(k for k, _ in flat)
                if bad:
                    k, e, e2 = bad
                    rep.ob('R17.2', f.key, f.where(e.node), False,
                           f'variable-length feed `{e.data[2][:60]}` has no terminator and is followed by variable-length `{e2.data[2][:40]}`: '
                           f'two different values produce the same byte stream (boundary ambiguity)',
                           statement=f'{stmt_text(e.node)}', construct_detail=key)
                else:
                    rep.ob('R17.2', f.key, f.where(evs[0].node), True, f'feed sequence [{key}] is prefix-free', statement=key)
                if soft and not bad:
                    rep.info(f'R17.2 {f.where(soft[1].node)} {f.key}: undelimited `{soft[1].data[2][:50]}` is followed only by fixed-length digests (ambiguity would need aligned SHA-1 output; not armed)')
    rep.unit('feed_sequences', nseq)


# ---------------------------------------------------------------------------

ORDERED_SOURCES = ('self._args', 'args', 'self.__signature__.parameters', 'dataclasses.fields(t)', 'data.__getnewargs__()')


def check_determinism(model, rep, funcs):
    for f in funcs:
        conds = enclosing_conditions(f.node)
        bad = []
        # (a) hash()/id() feeding
        for c in calls_in(f.node, nested=False):
            if isinstance(c.func, ast.Name) and c.func.id in ('hash', 'id'):
                # is it inside an argument of update/sha1/nutils_hash?
                if _inside_feed(f.node, c):
                    bad.append((c, f'`{src(c)[:50]}` (address/seed dependent) flows into a hasher'))
        # (b) unsorted iteration of unordered containers
        for n in walk_no_nested(f.node):
            iters = []
            if isinstance(n, ast.For):
                if any(method_name(c) in ('update',) for c in calls_in(n)):
                    iters.append((n.iter, n))
            elif isinstance(n, (ast.GeneratorExp, ast.ListComp, ast.SetComp)):
                if _inside_feed(f.node, n) or _feeds_loop(f.node, n):
                    for g in n.generators:
                        iters.append((g.iter, n))
            for it, owner in iters:
                t = src(it)
                if isinstance(it, ast.Call) and method_name(it) == 'sorted':
                    continue
                unordered = False
                why = ''
                if isinstance(it, ast.Call) and method_name(it) in ('items', 'keys', 'values') and not _sorted_outside(f.node, owner):
                    base = src(it.func.value)
                    if base not in ('self.__signature__.parameters',):
                        unordered, why = True, f'iterates `{t}` unsorted'
                if isinstance(it, ast.Name) and it.id == 'data':
                    cs = conds.get(id(owner), ())
                    if any(('set' in c or 'dict' in c) and v for c, v in cs) and not _sorted_outside(f.node, owner):
                        unordered, why = True, f'iterates a set/dict `{t}` unsorted'
                if isinstance(it, ast.Call) and method_name(it) == 'map' and len(it.args) == 2 and src(it.args[1]) == 'data':
                    cs = conds.get(id(owner), ())
                    if any(('set' in c or 'dict' in c) and v for c, v in cs) and not _sorted_outside(f.node, owner):
                        unordered, why = True, f'iterates a set/dict via `{t}` unsorted'
                if unordered:
                    bad.append((it, why + ': the digest depends on insertion order / PYTHONHASHSEED'))
        if bad:
            for n, why in bad:
                rep.ob('R17.1', f.key, f.where(n), False, why, statement=src(n)[:80])
        else:
            rep.ob('R17.1', f.key, f.where(), True, 'no hash()/id() and no unsorted dict/set iteration feeds the hasher', statement='deterministic')


def _inside_feed(root, node):
    for c in ast.walk(root):
        if isinstance(c, ast.Call) and (method_name(c) in ('update', 'nutils_hash') or is_hashlib_ctor(c)):
            for a in c.args:
                if any(n is node for n in ast.walk(a)):
                    return True
    return False


def _feeds_loop(root, comp):
    '''comprehension used as (part of) the iterable of a for loop whose body updates a hasher'''
    for s in ast.walk(root):
        if isinstance(s, ast.For) and any(n is comp for n in ast.walk(s.iter)) and any(method_name(c) == 'update' for c in calls_in(s)):
            return True
    return False


def _sorted_outside(root, node):
    for c in ast.walk(root):
        if isinstance(c, ast.Call) and method_name(c) == 'sorted' and c.args and any(n is node for n in ast.walk(c.args[0])):
            return True
    return False


# ---------------------------------------------------------------------------

BRANCH_COMPONENTS = {
    # branch marker in the test -> substrings that must occur among the fed expressions of that branch
    't is type': ['data.__name__'],
    '(bool, int, float, complex)': ['repr(data)'],
    't is str': ['data.encode()'],
    't is bytes': ['sha1(data)'],
    '(list, tuple)': ['nutils_hash', 'data'],
    't is dict': ['nutils_hash(k)', 'nutils_hash(v)', 'data.items()', 'sorted('],
    '(set, frozenset)': ['nutils_hash', 'data', 'sorted('],
    'io.BufferedIOBase': ['data.tell()', 'data.seek(0)', 'data.read(', 'data.seek(pos)'],
    'types.MethodType': ['nutils_hash(data.__self__)', 'nutils_hash(data.__name__)'],
    'numpy.ndarray': ['data.shape', 'data.dtype', 'data.tobytes()'],
    'dataclasses.is_dataclass(t)': ['field.name', 'getattr(data, field.name)', 'dataclasses.fields(t)', 'sorted('],
    "hasattr(data, '__getnewargs__')": ['data.__getnewargs__()', 'nutils_hash'],
}


def _kind_tables(node):
    """{kind letter: type text} of every `dict(b=bool, ...)` call or `{'b': bool, ...}` display under node."""
    kw = {}
    for n in ast.walk(node):
        if isinstance(n, ast.Call) and src(n.func) == 'dict' and not n.args:
            kw.update({k.arg: src(k.value) for k in n.keywords if k.arg})
        elif isinstance(n, ast.Dict) and n.keys and all(isinstance(k, ast.Constant) and isinstance(k.value, str) and len(k.value) == 1 for k in n.keys):
            kw.update({k.value: src(v) for k, v in zip(n.keys, n.values)})
    return kw


def check_branches(model, rep):
    f = model.func('types:nutils_hash')
    chain = None
    for s in f.body:
        if isinstance(s, ast.If) and ('Ellipsis' in src(s.test) or 't is type' in src(s.test)):
            chain = s
    if chain is None:
        raise AnalysisError('nutils_hash: the type dispatch chain was not found')
    branches = []
    cur = chain
    while True:
        branches.append((cur.test, cur.body))
        if len(cur.orelse) == 1 and isinstance(cur.orelse[0], ast.If):
            cur = cur.orelse[0]
        else:
            final = cur.orelse
            break
    ok = len(final) == 1 and isinstance(final[0], ast.Raise) and 'TypeError' in src(final[0])
    rep.ob('R17.5', f.key, f.where(final[0]) if final else f.where(), ok, 'unknown types raise TypeError instead of hashing by default' if ok else
           'the dispatch chain of nutils_hash no longer ends in `raise TypeError`: unknown objects would share the bare type-tag hash', statement='else: raise TypeError')
    found = set()
    for test, body in branches:
        t = src(test)
        for marker, comps in BRANCH_COMPONENTS.items():
            if marker in t:
                found.add(marker)
                text = ' ; '.join(src(s) for s in body)
                missing = [c for c in comps if not any(a in text for a in ((c,) if isinstance(c, str) else c))]
                rep.ob('R17.5', f.key, f.where(test), not missing, f'branch `{marker}` feeds {comps}' if not missing else
                       f'branch `{marker}` no longer feeds {missing}: values differing only there collide', statement=f'branch {marker}')
    missing = set(BRANCH_COMPONENTS) - found
    if missing:
        raise AnalysisError(f'nutils_hash: dispatch branches {sorted(missing)} not found - re-anchor R17.5')
    # the type tag: t = type(data) AFTER numpy scalar normalisation; tag is t.__name__ + NUL
    tag = [s for s in f.body if isinstance(s, ast.Assign) and is_hashlib_ctor(s.value)]
    ok = len(tag) == 1 and bool(tag[0].value.args) and 't.__name__' in src(tag[0].value.args[0]) and Typer(f).classify(tag[0].value.args[0])[-1] == DELIM
    rep.ob('R17.5', f.key, f.where(tag[0]) if tag else f.where(), ok, 'every value is tagged with its exact type name + NUL' if ok else
           'the hasher no longer starts with the NUL-terminated type name of the value', statement='type-tag')
    # R17.7: user-defined types (dataclass / __getnewargs__ / type objects) are identified by more than their bare name
    tagtxt = src(tag[0].value.args[0]) if tag else ''
    generic = [(test, body) for test, body in branches if 'dataclasses.is_dataclass(t)' in src(test) or '__getnewargs__' in src(test)]
    body_txt = ' ; '.join(src(s_) for _, b in generic for s_ in b)
    ok7 = ('__module__' in tagtxt and '__qualname__' in tagtxt) or ('__module__' in body_txt and '__qualname__' in body_txt)
    rep.ob('R17.7', f.key, f.where(tag[0]) if tag else f.where(), ok7, 'instances of user-defined classes are tagged with module and qualified name' if ok7 else
           f'instances of user-defined classes (dataclass / __getnewargs__ branches) are identified by `{tagtxt}` alone: two different classes with the same __name__ and fields share a hash',
           statement='identity of user-defined instance types: t.__name__')
    tb = [(test, body) for test, body in branches if 't is type' in src(test)]
    ttxt = ' ; '.join(src(s_) for _, b in tb for s_ in b)
    ok7 = '__module__' in ttxt and '__qualname__' in ttxt
    rep.ob('R17.7', f.key, f.where(tb[0][0]) if tb else f.where(), ok7, 'type objects are hashed by module and qualified name' if ok7 else
           'type objects are hashed by `data.__name__` alone: different classes of the same name share a hash', statement='identity of type objects: data.__name__')
    tdef = [s for s in f.body if isinstance(s, ast.Assign) and src(s.targets[0]) == 't' and src(s.value) == 'type(data)']
    norm = [s for s in f.body if isinstance(s, ast.If) and 'numpy.generic' in src(s.test)]
    ok = len(tdef) == 1 and len(norm) == 1 and norm[0].lineno < tdef[0].lineno
    rep.ob('R17.5', f.key, f.where(norm[0]) if norm else f.where(), ok, 'numpy scalars are normalised to Python scalars before the type tag is taken' if ok else
           'numpy scalar normalisation does not precede `t = type(data)`: numpy.int64(1) and 1 would hash differently', statement='numpy-scalar-normalisation')
    if norm:
        kw = _kind_tables(norm[0])
        expect = {'b': 'bool', 'i': 'int', 'f': 'float', 'c': 'complex'}
        ok = all(kw.get(k) == v for k, v in expect.items()) and all(kw[k] == {'u': 'int'}.get(k, expect.get(k)) for k in kw)
        rep.ob('R17.5', f.key, f.where(norm[0]), ok, f'kind table {kw} maps numpy kinds to the matching Python types' if ok else f'kind table {kw} is wrong', statement='kind-table')
    # the __nutils_hash__ escape hatch comes first
    first = next((s for s in f.body if not (isinstance(s, ast.Expr) and isinstance(s.value, ast.Constant))), None)
    ok = isinstance(first, ast.Try) and 'data.__nutils_hash__' in src(first.body[0]) and [src(h.type) for h in first.handlers] == ['AttributeError']
    rep.ob('R17.5', f.key, f.where(first), ok, 'objects carrying __nutils_hash__ are honoured first (only AttributeError falls through)' if ok else
           'the __nutils_hash__ lookup is not the first step guarded by AttributeError only', statement='nutils-hash-attribute-first')


# ---------------------------------------------------------------------------

def check_state_coverage(model, rep):
    m = model.module('solver')
    tags = {}
    n = 0
    for c in m.classes.values():
        mem = c.members.get('__nutils_hash__')
        if mem is None or mem.func is None:
            continue
        hf = mem.func
        rets = find_stmts(hf.body, lambda s: isinstance(s, ast.Return))
        if len(rets) != 1 or not (isinstance(rets[0].value, ast.Call) and method_name(rets[0].value) == 'nutils_hash' and isinstance(rets[0].value.args[0], ast.Tuple)):
            raise AnalysisError(f'{hf.key}: not of the form `return types.nutils_hash((tag, ...))`')
        tup = rets[0].value.args[0]
        tag = const(tup.elts[0])
        n += 1
        rep.ob('R17.3', hf.key, hf.where(), isinstance(tag, str) and tag == c.name, f'hash tag {tag!r} names the class' if tag == c.name else
               f'hash tag {tag!r} differs from the class name {c.name!r}', statement='tag-names-class')
        tags.setdefault(tag, []).append(c.name)
        fed = ' , '.join(src(e) for e in tup.elts[1:])
        init = c.members.get('__init__')
        if init is None or init.func is None:
            continue
        pos, kwonly, vararg, kwarg = params(init.func.node)
        pnames = set(pos[1:]) | set(kwonly) | ({vararg} if vararg else set()) | ({kwarg} if kwarg else set())
        for s in find_stmts(init.func.body, lambda s: isinstance(s, ast.Assign)):
            for t in s.targets:
                if isinstance(t, ast.Attribute) and src(t.value) == 'self':
                    used = {x.id for x in ast.walk(s.value) if isinstance(x, ast.Name)} & pnames
                    if not used:
                        continue
                    attr = t.attr
                    mangled = attr
                    ok = f'self.{attr}' in fed
                    if c.name == 'System':
                        continue
                    rep.ob('R17.3', hf.key, hf.where(), ok, f'constructor state self.{attr} is part of the hash' if ok else
                           f'self.{attr} is set from constructor argument(s) {sorted(used)} but is not fed to the hash: two differently configured {c.name} objects share a cache key',
                           statement=f'covers self.{attr}')
    for tag, names in tags.items():
        rep.ob('R17.3', 'solver:' + names[0] + '.__nutils_hash__', m.relpath + ':1', len(names) == 1, f'tag {tag!r} is unique' if len(names) == 1 else
               f'tag {tag!r} is shared by {names}', statement=f'unique tag {tag}')
    if n < 7:
        raise AnalysisError(f'only {n} hand-written __nutils_hash__ found in solver.py')
    # System: hash and reduce use the same state expression
    sysc = m.classes['System']
    h = sysc.members['__nutils_hash__'].func
    r = sysc.members['__reduce__'].func
    htup = find_stmts(h.body, lambda s: isinstance(s, ast.Return))[0].value.args[0]
    state_h = [src(e) for e in htup.elts[1:]]
    rtxt = src(r.node)
    ok = all(e in rtxt for e in state_h) and len(state_h) == 2
    rep.ob('R17.3', h.key, h.where(), ok, f'System hashes the state {state_h} that __reduce__ pickles' if ok else
           f'System.__nutils_hash__ feeds {state_h} but __reduce__ rebuilds from something else', statement='system-hash-matches-reduce')
    # WrapperCache and util.function
    cm = model.module('cache')
    w = cm.classes['WrapperCache'].members['__nutils_hash__'].func
    ok = 'nutils.cache.WrapperCache' in src(w.node)
    rep.ob('R17.3', w.key, w.where(), ok, 'WrapperCache has a constant hash tagged with its qualified name', statement='wrappercache-tag')
    uf = model.func('_util:function')
    ok = any(isinstance(s, ast.Assign) and src(s.targets[0]) == 'func.__nutils_hash__' for s in uf.body) and "hashlib.sha1(script.encode('utf-8')).digest()" in src(uf.node)
    rep.ob('R17.3', uf.key, uf.where(), ok, 'generated functions are hashed by their full script text' if ok else 'util.function no longer hashes the script text', statement='script-hash')


def check_canonical(model, rep):
    t = model.module('types')
    imm = t.classes['Immutable']
    new = imm.members['__new__'].func
    txt = src(new.node)
    ok = 'cls._canonicalize(*args, **kwargs)' in txt and 'tuple(sorted(kwargs.items()))' in txt
    rep.ob('R17.4', new.key, new.where(), ok, 'Immutable.__new__ canonicalises arguments and sorts keyword items' if ok else
           'Immutable.__new__ does not canonicalise and sort: keyword/positional spellings give different objects and hashes', statement='immutable-canonical')
    h = imm.members['__nutils_hash__'].func
    txt = src(h.node)
    ok = '__module__' in txt and '__qualname__' in txt and '_version' in txt and 'for arg in self._args' in txt
    rep.ob('R17.4', h.key, h.where(), ok, 'Immutable hash covers module, qualname, version and every canonical argument' if ok else
           'Immutable.__nutils_hash__ no longer covers module/qualname/version/all _args', statement='immutable-hash-fields')
    eq = imm.members['__eq__'].func
    ok = 'type(self) is type(other)' in src(eq.node) and 'self._args == other._args' in src(eq.node)
    rep.ob('R17.4', eq.key, eq.where(), ok, 'equality is exact type + canonical arguments' if ok else 'Immutable.__eq__ changed', statement='immutable-eq')
    red = imm.members['__reduce__'].func
    ok = 'self.__class__._new' in src(red.node) and 'self._args' in src(red.node)
    rep.ob('R17.4', red.key, red.where(), ok, 'pickling rebuilds from the canonical arguments' if ok else 'Immutable.__reduce__ changed', statement='immutable-reduce')
    mnew = t.classes['ImmutableMeta'].members['_new'].func
    ok = 'self._args = args' in src(mnew.node) and 'hash(args)' in src(mnew.node)
    rep.ob('R17.4', mnew.key, mnew.where(), ok, '_new stores the canonical args it hashes', statement='immutable-_new')
    sm = t.classes['SingletonMeta'].members['_new'].func
    txt = src(sm.node)
    ok = 'cls._cache[args]' in txt and txt.count('cls._cache[args]') >= 2 and 'WeakValueDictionary' in src(t.classes['SingletonMeta'].node)
    rep.ob('R17.4', sm.key, sm.where(), ok, 'Singleton interning looks up and stores under the same canonical key in a weak table' if ok else
           'SingletonMeta._new does not look up and store under the same key', statement='singleton-intern')
    # DataClassMeta.__call__
    call = t.classes['DataClassMeta'].members['__call__'].func
    txt = src(call.node)
    binds = [c for c in calls_in(call.node) if method_name(c) == 'bind']
    dflt = [c for c in calls_in(call.node) if method_name(c) == 'apply_defaults']
    gets = [c for c in calls_in(call.node) if method_name(c) == 'get' and 'cache' in src(c.func)]
    stores = [s for s in find_stmts(call.body, lambda s: isinstance(s, ast.Assign)) if isinstance(s.targets[0], ast.Subscript) and 'cache' in src(s.targets[0].value)]
    ok = len(binds) == 1 and len(dflt) == 1 and len(gets) == 1 and len(stores) == 1 and src(gets[0].args[0]) == src(stores[0].targets[0].slice) == 'bound.args' \
        and dflt[0].lineno < gets[0].lineno
    rep.ob('R17.4', call.key, call.where(), ok, 'DataClass interning binds, applies defaults, then looks up and stores under the same bound.args' if ok else
           'DataClassMeta.__call__: lookup key and store key differ or defaults are applied after the lookup: structurally equal nodes are not the same object', statement='dataclass-intern')
    ok = ok and 'self.__dict__.update(bound.arguments)' in txt
    init = t.classes['DataClassMeta'].members['__init__'].func
    ok2 = 'WeakValueDictionary' in src(init.node)
    rep.ob('R17.4', init.key, init.where(), ok2, 'the intern table is weak (one object per value while alive)', statement='dataclass-weak')
    dc = t.classes['DataClass']
    for name in ('__nutils_hash__', '__reduce__'):
        fn = dc.members[name].func
        ok = 'self.__signature__.parameters' in src(fn.node) and 'getattr(self, name)' in src(fn.node)
        rep.ob('R17.4', fn.key, fn.where(), ok, f'DataClass.{name} enumerates every constructor parameter' if ok else f'DataClass.{name} no longer enumerates __signature__.parameters', statement=f'dataclass-{name}')
    fn = dc.members['__nutils_hash__'].func
    ok = '__module__' in src(fn.node) and '__qualname__' in src(fn.node)
    rep.ob('R17.4', fn.key, fn.where(), ok, 'DataClass hash is tagged with module and qualname', statement='dataclass-tag')
    # arraydata
    ad = t.classes['arraydata'].members['__new__'].func
    kw = _kind_tables(ad.node)
    ok = kw == {'b': 'bool', 'u': 'int', 'i': 'int', 'f': 'float', 'c': 'complex'}
    rep.ob('R17.4', ad.key, ad.where(), ok, 'arraydata maps dtype kinds b,u,i,f,c to bool,int,int,float,complex' if ok else f'arraydata kind table is {kw}', statement='arraydata-kinds')
    txt = src(ad.node)
    ok = 'numpy.equal(array, orig).all()' in txt and any(isinstance(s, ast.If) and 'array.dtype != orig.dtype' in src(s.test) and any(isinstance(b, ast.Raise) for b in s.body) for s in find_stmts(ad.body, lambda s: isinstance(s, ast.If)))
    rep.ob('R17.4', ad.key, ad.where(), ok, 'a lossy cast to the native dtype is rejected' if ok else 'arraydata no longer verifies that the cast is lossless', statement='arraydata-lossless')
    ok = 'super().__new__(cls, dtype, array.shape, array.tobytes())' in txt
    rep.ob('R17.4', ad.key, ad.where(), ok, 'arraydata identity is (native dtype, shape, bytes)' if ok else 'arraydata is no longer keyed on (dtype, shape, bytes)', statement='arraydata-key')
    for cname in ('frozendict', 'frozenmultiset'):
        fn = t.classes[cname].members['__nutils_hash__'].func
        ok = 'sorted(' in src(fn.node) and '__module__' in src(fn.node) and '__qualname__' in src(fn.node)
        rep.ob('R17.4', fn.key, fn.where(), ok, f'{cname} hash is order independent and type tagged', statement=f'{cname}-hash')


def check_consumers(model, rep):
    # cache.function key
    w = model.func('cache:function.<locals>.wrapper')
    f = model.func('cache:function')
    txt = src(f.node)
    ok = "'{}.{}:{}'.format(func.__module__, func.__qualname__, version)" in txt and 'func_key = hashlib.sha1(' in txt
    rep.ob('R17.6', f.key, f.where(), ok, 'the cache key starts from module.qualname:version of the function' if ok else 'func_key no longer covers module, qualname and version', statement='func-key')
    wt = src(w.node)
    from rules.c18 import arguments_enter_key
    ok = 'canonicalize(*args, **kwargs)' in wt and all(arguments_enter_key(w))
    rep.ob('R17.6', w.key, w.where(), ok, 'every canonical positional argument and every keyword name and value enter the key, keywords sorted' if ok else
           'the cache key no longer covers all canonical positional and keyword arguments order-independently', statement='cache-key-covers-arguments')
    b = model.func('evaluable:_BlockTreeBuilder.add_constant') if 'evaluable:_BlockTreeBuilder.add_constant' in model.functions else None
    if b is None:
        raise AnalysisError('evaluable._BlockTreeBuilder.add_constant not found')
    fmt = [c for c in calls_in(b.node) if method_name(c) == 'format' and isinstance(c.func, ast.Attribute) and isinstance(c.func.value, ast.Constant)]
    ok = len(fmt) == 1 and len(fmt[0].args) == 1 and src(fmt[0].args[0]) == 'types.nutils_hash(value).hex()' 
    rep.ob('R17.6', b.key, b.where(), ok, 'constants in generated code are named by the full hex nutils hash of their value' if ok else
           'add_constant no longer names constants by the full nutils hash (a truncated or different key can bind a wrong constant)', statement='constant-name')


def check_array_identity(model, rep):
    """R17.8: (a) the ndarray branch of nutils_hash feeds an element-type tag and the raw bytes; the tag must be the dtype string of the very
    array whose bytes follow - a tag taken from a converted dtype (newbyteorder, a kind letter) lets two arrays with the same raw bytes
    but another byte order or width share a hash.  (b) the buffer-keyed memo types.lru_cache identifies an array view by address, strides,
    shape and element type (= R03.8).  (c) a function is identified by its full source text or an explicit identifier: bytecode alone
    (`__code__.co_code`) omits constants and names, so functions that differ only there (x*2 and x*3, sin and cos) would share a hash."""
    f = model.func('types:nutils_hash')
    br = [g for g in ast.walk(f.node) if isinstance(g, ast.If) and 'numpy.ndarray' in src(g.test)]
    feeds = [c for g in br for c in ast.walk(g) if isinstance(c, ast.Call) and method_name(c) == 'update' and c.lineno < (g.orelse[0].lineno if g.orelse else 10**9)] if br else []
    tag = [c for c in feeds if 'dtype' in src(c)]
    raw = [c for c in feeds if 'tobytes' in src(c) or 'data.data' in src(c)]
    if len(tag) != 1 or len(raw) != 1:
        raise AnalysisError('nutils_hash: the ndarray branch (dtype tag + raw bytes) was not recognised')
    arr = src(raw[0].args[0]).split('.tobytes')[0]
    dts = [x for x in ast.walk(tag[0]) if isinstance(x, ast.Attribute) and x.attr == 'dtype']
    def receiver_is_dtype(call):
        v = call.func.value
        while isinstance(v, ast.Attribute) and v.attr != 'dtype':
            v = v.value
        return isinstance(v, ast.Attribute) and v.attr == 'dtype'
    converted = [x for x in ast.walk(tag[0]) if isinstance(x, ast.Call) and isinstance(x.func, ast.Attribute) and receiver_is_dtype(x)]
    own = all(src(d.value) == arr for d in dts)
    full = any(isinstance(x, ast.Attribute) and x.attr in ('str', 'descr') and isinstance(x.value, ast.Attribute) and x.value.attr == 'dtype' for x in ast.walk(tag[0]))
    ok = own and full and not converted
    rep.ob('R17.8', f.key, f.where(tag[0]), ok, f'the element-type tag is `{arr}.dtype.str`, the dtype of the array whose bytes are fed' if ok else
           f'`{src(tag[0])[:80]}` tags the bytes of `{arr}` with ' + ('a converted dtype' if converted else 'something other than its own full dtype string') + ': two arrays with the same raw bytes but different byte order or '
           'element type get the same hash (and a memoised function is served the result computed for the other)', statement='array-tag-matches-bytes')
    from rules.c03 import check_array_memo_key, _Rename
    check_array_memo_key(model, _Rename(rep, {'R03.8': 'R17.8'}))
    hf = model.functions.get('types:hashable_function')
    if hf is None:
        raise AnalysisError('types.hashable_function not found')
    weak = [x for x in ast.walk(hf.node) if isinstance(x, ast.Attribute) and x.attr in ('co_code', '__code__', '__name__', '__qualname__')]
    strong = any(isinstance(x, ast.Attribute) and x.attr == 'co_consts' for x in ast.walk(hf.node)) and any(isinstance(x, ast.Attribute) and x.attr == 'co_names' for x in ast.walk(hf.node))
    usesrc = any(isinstance(c, ast.Call) and src(c.func) == 'inspect.getsource' for c in ast.walk(hf.node))
    bad = [x for x in weak if x.attr in ('co_code', '__code__') and not strong]
    ok = usesrc and not bad
    rep.ob('R17.8', hf.key, hf.where(bad[0]) if bad else hf.where(), ok, 'a function without explicit identifier is identified by its full source text (inspect.getsource); no weaker fallback' if ok else
           f'`{src(bad[0]) if bad else "?"}` identifies a function by its bytecode only: constants and global names are not part of it, so `lambda x: x*2.` and `lambda x: x*3.`, or wrappers of numpy.sin and numpy.cos, '
           'get one hash and compare equal', statement='function-identity')


def run(model, rep, tier):
    rep.explanation = (
        'R17.1 determinism taint over every function that streams into a hashlib object or defines __nutils_hash__ (hash()/id() results and unsorted dict/set iteration '
        'must not feed a hasher). R17.2 prefix-freeness: along every enumerated path the feeds of each hasher are typed digest/fixed/delimited/raw/varnum; the first feed must be a '
        'terminated tag or digest and no undelimited variable-length feed may be followed by another variable-length feed (otherwise two values give one byte stream). '
        'R17.5 component coverage of each type branch of nutils_hash and its tag/normalisation/escape-hatch order. R17.3 hand-written solver hashes cover the constructor state with unique tags '
        'and System hashes what it pickles. R17.4 canonicalisation and interning of Immutable/Singleton/DataClass/arraydata use one canonical key. R17.6 consumers (disk-cache key, constant names). '
        'Decides the encoding discipline; collision resistance of SHA-1 and user-defined __nutils_hash__ are NOT decided.')
    rep.rule('R17.1', 'no address/seed dependent source, no unsorted dict/set iteration feeds a hasher')
    rep.rule('R17.2', 'typed feed sequences are prefix-free; tag first')
    rep.rule('R17.3', 'hand-written hashes cover constructor state, tags unique')
    rep.rule('R17.4', 'canonicalisation and interning through one key')
    rep.rule('R17.5', 'nutils_hash branch components, tag, normalisation order')
    rep.rule('R17.6', 'hash consumers use the full hash of all inputs')
    rep.rule('R17.8', 'array identity: dtype tag matches the hashed bytes; buffer memo keyed by address, strides, shape, type; functions identified by full source')
    rep.rule('R17.7', 'type identity in the hash is module + qualified name, not the bare name')
    funcs = hasher_functions(model)
    rep.unit('hasher_functions', len(funcs))
    if len(funcs) < 12:
        raise AnalysisError(f'only {len(funcs)} hasher functions discovered, expected at least 12')
    from rules import round5 as _r5
    rep.rule('R17.10', 'nutils_hash is not memoised by Python equality; the dataclass branch feeds every field; fresh loop ids are drawn in sorted order')
    _r5.check_hash_not_memoised(model, rep, 'R17.10')
    _r5.check_fresh_ids_in_order(model, rep, 'R17.10')
    check_determinism(model, rep, funcs)
    check_prefix_free(model, rep, funcs)
    check_branches(model, rep)
    check_state_coverage(model, rep)
    check_canonical(model, rep)
    check_consumers(model, rep)
    check_array_identity(model, rep)
    _r5.check_dataclass_fields_all(model, rep, 'R17.10')
    rep.rule('R17.9', 'every name loaded in types.py resolves (symtable)')
    from rules import names as _names
    _names.check(model, rep, 'R17.9', ('types',), 45)
    rep.require('R17.2', 15)
    rep.require('R17.5', 14)
    rep.require('R17.3', 20)
    rep.require('R17.4', 15)
