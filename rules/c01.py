'''C01 Simplification terminates and preserves the value of every expression - protocol conformance only.

Decided: R01.1 every override and every dynamic call site of the swap-rule protocol (and of the other
double-dispatch protocols of Array) agrees in arity with the declaration in Array/Evaluable - a mismatch is a
TypeError the moment that pair of node kinds meets; R01.2 inside a swap rule the rule's own axis parameters are
never handed to the user-facing helper of the same name (different axis convention / extra assertions);
R01.4 the fixed-point driver keeps its shape/dtype assertion, loop detection and memoisation; R01.6 the iszero/isunit
guards of rewrite rules are decidable by simplification (a guard over `a % b` is dead: Mod has no constant folding).
R01.3 is advisory (INFO).  Not decided: termination and value preservation of the rule set.
'''

import ast

from sa import AnalysisError
from sa.guards import decompose
from sa.astutil import dotted, src, stmt_text, params, arity, find_stmts, calls_in, method_name, walk_no_nested, const

EXTRA_PROTOCOLS = ['_simplified', '_optimized_for_numpy', '_derivative', '_compile', '_compile_with_out', '_intbounds_impl', '_argument_degree', '_assparse', '_node']

# user-facing helper -> (protocol helper, why it may not be used inside the rule of that name)
PUBLIC_VS_PROTOCOL = {
    '_takediag': ('takediag', '_takediag', 'takediag() leaves the diagonal at the position of the first axis, whereas a _takediag rule must return it as LAST axis'),
    '_take': ('take', '_take', 'take() requires a 1-D index and wraps it in InRange/negative-index handling, whereas a _take rule receives an in-range index of any dimension'),
    '_rtake': ('take', '_take', 'take() requires a 1-D index, whereas the rule receives an index of any dimension'),
    '_inflate': ('inflate', '_inflate', 'the public helper normalises axes for the user; the rule must use the protocol helper'),
    '_unravel': ('unravel', 'unravel', ''),
}


def protocol_table(model):
    A = model.cls('evaluable:Array')
    table = {}
    for name, mem in A.members.items():
        if mem.kind == 'lambda' and name.startswith('_') and isinstance(mem.func.node.body, ast.Constant) and mem.func.node.body.value is None:
            lo, hi = arity(mem.func.node)
            table[name] = (lo, hi, mem)
    if len(table) < 20:
        raise AnalysisError(f'only {len(table)} swap-rule defaults found in evaluable.Array')
    return table


def check_arity(model, rep):
    A = model.cls('evaluable:Array')
    E = model.cls('evaluable:Evaluable')
    table = protocol_table(model)
    rep.unit('swap_protocols', len(table))
    extra = {}
    for name in EXTRA_PROTOCOLS:
        found = model.lookup(A, name)
        if found and found[1].func is not None:
            extra[name] = arity(found[1].func.node) + (found[1],)
    subs = model.subclasses(E, strict=True)
    nover = 0
    for c in subs:
        for name, mem in c.members.items():
            if mem.func is None:
                continue
            decl = table.get(name) or extra.get(name)
            if decl is None or c is A and name in table or (c in (A, E) and name in extra):
                continue
            lo, hi, _ = decl
            pos, kwonly, vararg, kwarg = params(mem.func.node)
            mlo, mhi = arity(mem.func.node)
            nover += 1
            # an override must accept exactly the calls the declaration accepts
            ok = mlo <= lo and (mhi is None or mhi >= (hi if hi is not None else mhi)) and (hi is None or mhi is None or mhi == hi or mlo <= lo <= mhi)
            ok = ok and (mhi is None or hi is None or mhi >= hi) and mlo <= lo
            if name in table:
                ok = ok and mhi == hi and mlo == lo   # swap rules: exact
            rep.ob('R01.1', mem.func.key, mem.func.where(), ok, f'{name} takes {mlo - 1} argument(s) like the declaration in Array' if ok else
                   f'{c.name}.{name} takes {mlo - 1}..{"*" if mhi is None else mhi - 1} arguments but the protocol declared in Array passes {lo - 1}: TypeError when this node kind meets the rule',
                   statement=f'override {name}')
    if nover < 150:
        raise AnalysisError(f'only {nover} protocol overrides found')
    rep.unit('protocol_overrides', nover)
    # dynamic call sites  <expr>._x(...)
    ncall = 0
    ev = model.module('evaluable')
    for f in model.functions.values():
        if f.module is not ev:
            continue
        for c in calls_in(f.node, nested=False):
            if not isinstance(c.func, ast.Attribute):
                continue
            name = c.func.attr
            decl = table.get(name) or extra.get(name)
            if decl is None:
                continue
            if src(c.func.value).startswith('super()'):
                continue
            if any(isinstance(a, ast.Starred) for a in c.args) or any(k.arg is None for k in c.keywords):
                continue
            lo, hi, mem = decl
            given = len(c.args) + len(c.keywords) + 1
            ncall += 1
            ok = given >= lo and (hi is None or given <= hi)
            if name == '_compile_with_out':
                # keyword/positional mixture: check names
                pos = params(mem.func.node)[0]
                ok = ok and all(k.arg in pos for k in c.keywords)
            rep.ob('R01.1', f.key, f.where(c), ok, f'call of {name} passes {given - 1} argument(s) as declared' if ok else
                   f'`{src(c)[:70]}` passes {given - 1} arguments to {name}, the protocol takes {lo - 1}{"" if hi == lo else ".." + str(hi - 1 if hi else "*")}', statement=f'call {src(c)[:60]}')
    if ncall < 60:
        raise AnalysisError(f'only {ncall} dynamic protocol call sites found')
    rep.unit('protocol_call_sites', ncall)
    # module-level protocol helpers called by bare name
    for helper in ('_take', '_takediag', '_inflate', 'take', 'takediag', 'get', 'insertaxis', 'unravel', 'ravel', 'transpose', 'diagonalize'):
        hf = ev.functions.get(helper)
        if hf is None:
            continue
        lo, hi = arity(hf.node)
        pos = params(hf.node)[0]
        for f in model.functions.values():
            if f.module is not ev:
                continue
            for c in calls_in(f.node, nested=False):
                if isinstance(c.func, ast.Name) and c.func.id == helper and not any(isinstance(a, ast.Starred) for a in c.args) and not any(k.arg is None for k in c.keywords):
                    given = len(c.args) + len([k for k in c.keywords if k.arg in pos])
                    ok = given >= lo and (hi is None or len(c.args) <= hi) and all(k.arg in pos for k in c.keywords)
                    rep.ob('R01.1', f.key, f.where(c), ok, f'{helper}(...) called with {given} argument(s)' if ok else
                           f'`{src(c)[:70]}` does not match the signature {helper}({", ".join(pos)})', statement=f'helper {src(c)[:60]}')


def check_passthrough(model, rep):
    E = model.cls('evaluable:Evaluable')
    n = 0
    for c in model.subclasses(E, strict=True):
        for rule, (public, proto, why) in PUBLIC_VS_PROTOCOL.items():
            mem = c.members.get(rule)
            if mem is None or mem.func is None or not why:
                continue
            f = mem.func
            own = set(params(f.node)[0][1:])
            calls = [x for x in calls_in(f.node) if isinstance(x.func, ast.Name) and x.func.id == public]
            protocalls = [x for x in calls_in(f.node) if isinstance(x.func, ast.Name) and x.func.id == proto and proto != public]
            n += 1
            bad = []
            for x in calls:
                axis_args = x.args[1:]
                used = {nn.id for a in axis_args for nn in ast.walk(a) if isinstance(nn, ast.Name)} & own
                if used:
                    bad.append((x, used))
            if bad:
                for x, used in bad:
                    rep.ob('R01.2', f.key, f.where(x), False,
                           f'`{src(x)[:70]}` hands the rule\'s own parameters {sorted(used)} to the user-facing {public}(): {why}', statement=f'{public}({", ".join(sorted(used))})')
            else:
                rep.ob('R01.2', f.key, f.where(), True, f'{rule} recurses through the protocol helper {proto}() ({len(protocalls)} call(s)); no own axis parameter reaches the public {public}()', statement='pass-through')
    if n < 40:
        raise AnalysisError(f'only {n} take/takediag/inflate rules found')


# binary swap rules that merge two nodes of one class keep only self's control operand: the guard must equate it with other's
CONTROL = {('Inflate', '_add'): ['dofmap'], ('Choose', '_multiply'): ['index'], ('LoopSum', '_add'): ['index']}


def check_binary_guards(model, rep):
    from sa.guards import paths_to
    for (cname, rule), fields in CONTROL.items():
        c = model.cls(f'evaluable:{cname}')
        mem = c.members.get(rule)
        if mem is None or mem.func is None:
            raise AnalysisError(f'{cname}.{rule} not found')
        f = mem.func
        ps = paths_to(f.node, lambda s: isinstance(s, ast.Return) and s.value is not None and src(s.value) != 'None')
        if not ps:
            raise AnalysisError(f'{cname}.{rule}: no rewriting return found')
        for fld in fields:
            bad = [p for p, idx, facts in ps if facts.get(f'self.{fld} == other.{fld}') is not True and facts.get(f'other.{fld} == self.{fld}') is not True
                   and facts.get(f'self.{fld} is other.{fld}') is not True]
            cls_ok = all(facts.get(f'isinstance(other, {cname})') is True for _, _, facts in ps)
            ok = not bad and cls_ok
            rep.ob('R01.5', f.key, f.where(), ok, f'two {cname} nodes are merged only when their {fld} operands are equal' if ok else
                   f'{cname}.{rule} merges `other` into a node that keeps self.{fld} without requiring self.{fld} == other.{fld}: for operands that merely have the same shape the values of other are re-interpreted under the wrong {fld}',
                   statement=f'control {fld}')
    # capture avoidance: a foreign operand may move into a loop body only if it does not depend on that loop's index
    L = model.cls('evaluable:Loop')
    n = 0
    for c in model.subclasses(L, strict=True):
        for rule in ('_multiply', '_add'):
            mem = c.members.get(rule)
            if mem is None or mem.func is None:
                continue
            f = mem.func
            ps = paths_to(f.node, lambda s: isinstance(s, ast.Return) and s.value is not None and 'other' in {x.id for x in ast.walk(s.value) if isinstance(x, ast.Name)})
            for p, idx, facts in ps:
                n += 1
                ok = facts.get('self.index not in other.arguments') is True or facts.get('self.index in other.arguments') is False or \
                    facts.get('other.index == self.index') is True or facts.get('self.index == other.index') is True
                rep.ob('R01.5', f.key, f.where(), ok, 'the foreign operand enters the loop body only if it is independent of this loop\'s index (or is a loop over the same index)' if ok else
                       f'{c.name}.{rule} moves `other` inside the loop body without the guard `self.index not in other.arguments`: an operand that depends on an outer loop with the same index is captured by the inner loop',
                       statement='loop-capture')
    if n < 2:
        raise AnalysisError('loop swap rules with a foreign operand not found')


def check_driver(model, rep):
    E = model.cls('evaluable:Evaluable')
    s = E.members.get('simplified')
    if s is None or s.func is None:
        raise AnalysisError('Evaluable.simplified not found')
    f = s.func
    ok = any('deep_replace_property' in d for d in f.decorators)
    rep.ob('R01.4', f.key, f.where(), ok, 'simplified is driven to a fixed point by deep_replace_property', statement='driver-decorator')
    txt = src(f.node)
    asserts = [a for a in find_stmts(f.body, lambda x: isinstance(x, ast.Assert))]
    ok = len(asserts) == 1 and 'isinstance(retval, Array)' in src(asserts[0].test) and '_any_certainly_different(retval.shape, obj.shape)' in src(asserts[0].test) and 'retval.dtype == obj.dtype' in src(asserts[0].test)
    rep.ob('R01.4', f.key, f.where(asserts[0]) if asserts else f.where(), ok, 'every rewrite step is asserted to keep shape and dtype' if ok else
           'the shape/dtype assertion on the result of _simplified() is gone or weakened', statement='shape-dtype-assertion')
    ok = any(isinstance(x, ast.If) and src(x.test) == 'retval is None' and any(isinstance(b, ast.Return) and src(b.value) == 'obj' for b in x.body) for x in f.body)
    rep.ob('R01.4', f.key, f.where(), ok, 'a rule returning None leaves the node unchanged' if ok else 'the `retval is None -> return obj` convention changed', statement='none-means-unchanged')
    d = model.cls('_util:deep_replace_property').members['__get__'].func
    txt = src(d.node)
    loop = any(isinstance(x, ast.Raise) and 'is caught in a loop' in src(x) for x in ast.walk(d.node))
    rep.ob('R01.4', d.key, d.where(), loop, 'revisiting an object that is still being rewritten raises "caught in a loop" instead of recursing forever' if loop else
           'the loop detection of deep_replace_property is gone: a cyclic rewrite recurses without bound', statement='loop-detection')
    ok = 'orig.__dict__[self.name] = r' in txt and 'obj.__dict__.get(self.name)' in txt and 'self.identity' in txt
    rep.ob('R01.4', d.key, d.where(), ok, 'results are memoised on the original object (identity marker for unchanged ones)' if ok else 'the memoisation of the rewritten form changed', statement='memoisation')
    ok = '(newr := self.func(r)) is not r' in txt and 'fstack.append(newr)' in txt
    rep.ob('R01.4', d.key, d.where(), ok, 'a changed node is rewritten again until func returns it unchanged (fixed point)' if ok else 'the fixed-point iteration (re-push of a changed node) changed', statement='fixed-point')


def advisory_priority(model, rep):
    ev = model.module('evaluable')
    # simplify_priority tuple in the __main__ block
    prio = None
    for s in ast.walk(ev.tree):
        if isinstance(s, ast.Assign) and src(s.targets[0]) == 'simplify_priority' and isinstance(s.value, ast.Tuple):
            prio = [src(e) for e in s.value.elts]
    if not prio:
        rep.info('R01.3 simplify_priority tuple not found (advisory rule skipped)')
        return
    attrs = ['_' + n.lower() for n in prio]
    n = 0
    for i, cname in enumerate(prio):
        c = ev.classes.get(cname)
        if c is None:
            continue
        against = [a for a in attrs[:i] if a in c.members and c.members[a].func is not None]
        for a in against:
            n += 1
            rep.info(f'R01.3 advisory: {cname} defines {a} against the declared simplify_priority ({c.module.relpath}:{c.members[a].func.lineno}); termination then rests on the rule\'s own guard')
    rep.unit('rules_against_priority', n)


NO_FOLDING = ('Mod', 'FloorDivide')   # evaluable node classes without any constant folding (no _simplified at all)


def check_decidable_guards(model, rep):
    """R01.6: rewrite rules guard themselves with iszero(E) / isunit(E), which hold only if E *simplifies* to Zeros / a unit Constant.
    An operand built on the spot from an operation that has no constant folding (`a % b` makes a Mod node; neither Mod nor FloorDivide nor
    their base Pointwise ever folds constants) can never simplify to Zeros for array or real constants, so such a guard is dead and the branch it
    protects is never taken: the rewrite silently runs without the precaution the guard was written for."""
    ev = model.module('evaluable')
    for cname in NO_FOLDING:
        c = ev.classes.get(cname)
        if c is None:
            raise AnalysisError(f'evaluable.{cname} not found')
        mem = c.members.get('_simplified')
        if mem is not None and mem.func is not None and any(isinstance(x, ast.Call) and method_name(x) in ('zeros', 'Zeros', 'zeros_like', 'constant', 'Constant') for x in ast.walk(mem.func.node)):
            raise AnalysisError(f'evaluable.{cname}._simplified now builds constants: the premise of R01.6 (no constant folding) needs review')
    n = 0
    for f in model.functions.values():
        if f.module is not ev or isinstance(f.node, ast.Lambda):
            continue
        for c in calls_in(f.node, nested=False):
            if not (isinstance(c.func, ast.Name) and c.func.id in ('iszero', 'isunit') and len(c.args) == 1):
                continue
            n += 1
            arg = c.args[0]
            dead = [x for x in ast.walk(arg) if (isinstance(x, ast.BinOp) and isinstance(x.op, (ast.Mod, ast.FloorDiv))) or
                    (isinstance(x, ast.Call) and src(x.func) in NO_FOLDING + ('mod', 'floor_divide', 'divmod'))]
            ok = not dead
            rep.ob('R01.6', f.key, f.where(c), ok, f'`{src(c)[:60]}` tests an operand that simplification can decide' if ok else
                   f'`{src(c)[:70]}` can never be true for array or real constants: `{src(dead[0])[:40]}` builds a node of a class without constant folding, which never simplifies to '
                   f'{"Zeros" if c.func.id == "iszero" else "a unit constant"} - the guard is dead and the rewrite it protects runs unguarded', statement=f'decidable {src(c)[:50]}')
    if n < 10:
        raise AnalysisError(f'only {n} iszero/isunit guards found in evaluable.py')


def check_certain_equality(model, rep):
    """R01.7: lengths in evaluable shapes may be known only at run time; `_certainly_equal` / `_all_certainly_equal` hold when two
    lengths are provably the same, `not _certainly_different` / `not _any_certainly_different` already when they merely cannot be told
    apart.  The latter is what assertions and validations use (the run-time check follows).  A rewrite rule that returns a rewritten
    expression under such a test drops or merges operations on the strength of a possibility: for run-time lengths that differ the
    simplified expression has another shape or value than the original."""
    ev = model.module('evaluable')
    A = model.cls('evaluable:Array')
    protocol = {n for n in A.members if n.startswith('_') and not n.startswith('__')} | set(EXTRA_PROTOCOLS)
    n = 0
    for f in model.functions.values():
        if f.module is not ev or isinstance(f.node, ast.Lambda) or f.cls is None or f.name not in protocol or f.name in ('_compile', '_compile_with_out', '_node', '_intbounds_impl'):
            continue
        for g in ast.walk(f.node):
            if not isinstance(g, ast.If) or not any(isinstance(b, ast.Return) and b.value is not None for b in g.body):
                continue
            n += 1
            weak = [c for c in ast.walk(g.test) if isinstance(c, ast.UnaryOp) and isinstance(c.op, ast.Not) and isinstance(c.operand, ast.Call) and src(c.operand.func) in ('_certainly_different', '_any_certainly_different')]
            ok = not weak
            if weak or n <= 1:
                pass
            rep.ob('R01.7', f.key, f.where(g), ok, 'rewrites of this rule are guarded by certain (not merely possible) equality of lengths' if ok else
                   f'`{src(weak[0])[:70]}` lets the rewrite `{stmt_text(next(b for b in g.body if isinstance(b, ast.Return)))[:50]}` fire whenever the lengths cannot be told apart: for run-time lengths that differ, '
                   'the simplified expression no longer has the shape (or value) of the original', statement=f'certain-equality@{f.name}')
    if n < 150:
        raise AnalysisError(f'only {n} guarded rewrites found in the protocol methods of evaluable.py')


def check_hoist_quantifier(model, rep):
    """R01.5 (hoisting): moving parts of a loop body out of the loop (or keeping them outside) is licensed by independence of the
    loop index of EVERY moved part.  The tests are comprehensions over `self.index in <part>.arguments`; as the guard of a returned
    rewrite they must be universal - `not any(index in ...)` / `all(index not in ...)`; the existential readings `not all(index in ...)`
    / `any(index not in ...)` license the move as soon as one part is independent and leave the loop index of the others unbound."""
    ev = model.module('evaluable')
    n = 0
    for f in model.functions.values():
        if f.module is not ev or isinstance(f.node, ast.Lambda) or f.cls is None:
            continue
        for g in ast.walk(f.node):
            if not isinstance(g, ast.If) or not any(isinstance(b, ast.Return) and b.value is not None for b in g.body):
                continue
            for q in ast.walk(g.test):
                if not (isinstance(q, ast.Call) and src(q.func) in ('any', 'all') and len(q.args) == 1 and isinstance(q.args[0], ast.GeneratorExp)):
                    continue
                elt = q.args[0].elt
                if not (isinstance(elt, ast.Compare) and len(elt.ops) == 1 and isinstance(elt.ops[0], (ast.In, ast.NotIn)) and src(elt.left) in ('self.index', 'index') and src(elt.comparators[0]).endswith('.arguments')):
                    continue
                n += 1
                negated = any(isinstance(u, ast.UnaryOp) and isinstance(u.op, ast.Not) and u.operand is q for u in ast.walk(g.test))
                dependent = isinstance(elt.ops[0], ast.In)       # element test says "depends on the index"
                # independence of all parts: not any(dependent) | all(independent);  dependence of all parts (keep inside): all(dependent) | not any(independent)
                universal = (src(q.func) == 'any' and negated) or (src(q.func) == 'all' and not negated)
                rep.ob('R01.5', f.key, f.where(g), universal, f'`{src(g.test)[:70]}` quantifies over every part' if universal else
                       f'`{src(g.test)[:70]}` holds as soon as ONE part is {"independent of" if dependent else "dependent on"} the loop index, but the rewrite `{stmt_text(next(b for b in g.body if isinstance(b, ast.Return)))[:60]}` '
                       'moves all of them: the parts that do depend on the index end up outside their loop with the index unbound', statement=f'hoist-quantifier@{f.name}')
    if n < 1:
        raise AnalysisError('no quantified loop-index independence test guards a rewrite any more (LoopSum._simplified expected)')


EMPTY_IS_ONE = {'_product': 'the product over an empty axis is 1', '_determinant': 'the determinant of a 0x0 matrix is 1'}


def check_zeros_shortcuts(model, rep, rule='R01.9'):
    """R01.9: Zeros is absorbing for sums, products with other arrays, selections and rearrangements - but a reduction whose neutral
    element is 1 gives 1, not 0, over an EMPTY axis.  A simplification hook of Zeros for such a reduction (_product, _determinant) must
    decide the empty case (a test that the reduced length is zero, returning ones) before it answers Zeros; `Product(Zeros((n, 0)))` is
    ones((n,)), which is what numpy.prod / numpy.all on an empty axis return."""
    z = model.cls('evaluable:Zeros')
    n = 0
    for name, why in EMPTY_IS_ONE.items():
        mem = z.members.get(name)
        if mem is None or mem.func is None:
            continue
        n += 1
        f = mem.func
        empties = [g for g in ast.walk(f.node) if isinstance(g, ast.If) and any(isinstance(c, ast.Call) and src(c.func) in ('iszero', 'isunit', '_certainly_equal') for c in ast.walk(g.test)) or
                   isinstance(g, ast.If) and ('== 0' in src(g.test) or '_intbounds' in src(g.test))]
        ones_ret = any(isinstance(r, ast.Return) and r.value is not None and ('ones(' in src(r.value) or 'Ones(' in src(r.value)) for r in ast.walk(f.node))
        ok = bool(empties) and ones_ret
        rep.ob(rule, f.key, f.where(), ok, f'Zeros.{name} answers ones for an empty axis, zeros otherwise' if ok else
               f'Zeros.{name} answers Zeros for every shape, but {why}: the simplified expression is 0 where the unsimplified one (and NumPy) give 1', statement=f'zeros-shortcut {name}')
    rep.ob(rule, 'evaluable:Zeros', f'{z.module.relpath}:{z.node.lineno}', True, f'{n} reduction shortcuts of Zeros with a non-zero empty value inspected', statement='zeros-shortcuts-inspected')


def check_range_recognition(model, rep):
    """R01.10: Constant._simplified replaces an integer vector by Range(n) + first only when the vector IS first, first+1, ..., i.e. every
    consecutive difference is 1.  The guard must contain a proof of that: all(diff == 1) directly, or - for integers - strictly increasing
    entries together with last == first + size - 1 (pigeonhole).  Non-strict monotonicity does not do: [0, 1, 1, 3] has the right end points."""
    from sa.guards import strip_all
    from sa.pattern import pmatch
    f = model.func('evaluable:Constant._simplified')
    sites = [s_ for s_ in ast.walk(f.node) if isinstance(s_, ast.If) and any(isinstance(c, ast.Call) and src(c.func) == 'Range' for b in s_.body for c in ast.walk(b))]
    if len(sites) != 1:
        raise AnalysisError(f'Constant._simplified: {len(sites)} branches that build a Range')
    g = sites[0]
    atoms = [(n, v) for n, v in decompose(g.test, True)]
    inner = [strip_all(n) for n, v in atoms if v and strip_all(n) is not None]
    direct = any(pmatch(pt, e) is not None for e in inner for pt in ('numpy.diff(X_) == 1', 'X_[1:] - X_[:-1] == 1', 'X_[1:] == X_[:-1] + 1', 'X_[:-1] + 1 == X_[1:]'))
    strict = [m for e in inner for pt in ('X_[1:] > X_[:-1]', 'X_[:-1] < X_[1:]', 'numpy.diff(X_) > 0', 'numpy.diff(X_) >= 1') for m in [pmatch(pt, e)] if m is not None]
    ends = [m for n, v in atoms if v for pt in ('X_[-1] == X_[0] + X_.size - 1', 'X_[-1] == X_[0] + len(X_) - 1', 'X_[-1] - X_[0] == X_.size - 1', 'X_[-1] - X_[0] == len(X_) - 1', 'X_[0] + X_.size - 1 == X_[-1]')
            for m in [pmatch(pt, n)] if m is not None]
    isint = any(v and src(n) in ('self.dtype == int', 'int == self.dtype') for n, v in atoms)
    pigeon = any(src(a['X_']) == src(b['X_']) for a in strict for b in ends) and isint
    ok = direct or pigeon
    rep.ob('R01.10', f.key, f.where(g), ok, 'a constant vector becomes a Range only when all consecutive differences are 1 (strictly increasing integers with matching end points)' if ok else
           f'`{src(g.test)[:110]}` does not establish that every consecutive difference is 1 (a non-strict or missing monotonicity test lets vectors with repeated entries through): '
           'the simplified expression is first + Range(n), whose values differ from the constant', statement='range-recognition')


def check_multiset_difference(model, rep):
    """R01.11: the factors of a Multiply and the terms of an Add are MULTISETS (a*a has the factor a twice).  Splitting two operand lists into
    common and remaining parts must consume one occurrence per match (`if f in factors: factors.remove(f)`); a comprehension that filters by
    membership (`[f for f in factors if f not in common]`) is a SET difference and drops every repetition: a*a*b + a*c would become a*(b + c)."""
    n = 0
    for k, f in sorted(model.functions.items()):
        if f.module.short != 'evaluable' or isinstance(f.node, ast.Lambda) or f.cls is None or f.cls.name not in ('Multiply', 'Add'):
            continue
        derived = {'self._factors', 'self._terms', 'other._factors', 'other._terms'}
        changed = True
        while changed:
            changed = False
            for s_ in ast.walk(f.node):
                if isinstance(s_, ast.Assign) and len(s_.targets) == 1 and isinstance(s_.targets[0], ast.Name) and s_.targets[0].id not in derived:
                    if any((isinstance(x, ast.Attribute) and x.attr in ('_factors', '_terms')) or (isinstance(x, ast.Name) and x.id in derived) for x in ast.walk(s_.value)):
                        derived.add(s_.targets[0].id)
                        changed = True
        for c in ast.walk(f.node):
            if not isinstance(c, (ast.ListComp, ast.GeneratorExp, ast.SetComp)):
                continue
            for g in c.generators:
                for cond in g.ifs:
                    for cmp_ in ast.walk(cond):
                        if isinstance(cmp_, ast.Compare) and len(cmp_.ops) == 1 and isinstance(cmp_.ops[0], (ast.In, ast.NotIn)):
                            it, other = src(g.iter), src(cmp_.comparators[0])
                            if (it in derived or any(d in it for d in ('_factors', '_terms'))) and (other in derived or any(d in other for d in ('_factors', '_terms'))) \
                                    and src(cmp_.left) == src(g.target):
                                n += 1
                                rep.ob('R01.11', f.key, f.where(c), False, f'`{src(c)[:80]}` splits one operand multiset by membership in another: every repetition of a common operand is removed at once, '
                                       'so a repeated factor (a*a) or term loses its multiplicity and the rewritten expression has other values', statement=f'multiset-difference {src(c)[:40]}')
    rep.ob('R01.11', 'evaluable:Multiply', 'src/nutils/evaluable.py:1', True, f'no membership-filter difference on the operand multisets of Multiply/Add ({n} found)', statement='multiset-difference-inspected')


def run(model, rep, tier):
    rep.explanation = (
        'R01.1: the rewrite system is a double-dispatch protocol; the arities declared by the `_x = lambda self, ...: None` defaults in evaluable.Array (and by _simplified, _derivative, _compile_with_out, ...) are '
        'compared with every override in every Evaluable subclass and with every dynamic call site `<expr>._x(...)`, and the module-level helpers (_take, _takediag, _inflate, take, ...) with their bare-name calls. '
        'R01.2: inside a _takediag/_take/_rtake/_inflate rule no call of the user-facing helper of the same name receives the rule\'s own axis/index parameters (the public helpers use another axis convention '
        'and add 1-D/InRange handling). R01.4: the fixed-point driver keeps the shape/dtype assertion, the None convention, loop detection and memoisation. R01.3 (rules defined against simplify_priority) is printed '
        'as INFO only. These decide protocol conformance, which is necessary for every depth>=3 interaction to run at all; termination and value preservation of the rule set are NOT decided.')
    rep.rule('R01.1', 'arity agreement of protocol declarations, overrides and call sites')
    rep.rule('R01.2', 'swap rules do not hand their own axis parameters to user-facing helpers')
    rep.rule('R01.4', 'fixed-point driver: assertion, None convention, loop detection, memoisation')
    rep.rule('R01.5', 'binary swap rules: control operands equated, no loop-index capture')
    rep.rule('R01.8', 'the integer ranges that license integer rewrites are sound for the elementary and index-producing nodes (= R06.4)')
    rep.rule('R01.7', 'rewrite rules fire on certain, not merely possible, equality of run-time lengths')
    rep.rule('R01.6', 'iszero/isunit guards of rewrite rules test operands that simplification can decide (no dead guards)')
    check_arity(model, rep)
    check_passthrough(model, rep)
    check_driver(model, rep)
    check_binary_guards(model, rep)
    advisory_priority(model, rep)
    check_decidable_guards(model, rep)
    check_certain_equality(model, rep)
    rep.rule('R01.9', 'Zeros shortcuts of reductions with neutral element 1 (product, determinant) decide the empty axis first')
    check_zeros_shortcuts(model, rep)
    rep.rule('R01.10', 'a constant integer vector is rewritten to a Range only under a guard that proves unit steps')
    check_range_recognition(model, rep)
    rep.rule('R01.11', 'operand multisets of Multiply/Add are never split by a membership filter (set difference)')
    check_multiset_difference(model, rep)
    check_hoist_quantifier(model, rep)
    from rules.c06 import check_transfer
    from rules.c03 import _Rename
    check_transfer(model, _Rename(rep, {'R06.4': 'R01.8'}))
    from rules.c06 import check_inflate_transfer, check_transfer_sound, check_einsum_transfer
    check_inflate_transfer(model, _Rename(rep, {'R06.4': 'R01.8'}))
    check_einsum_transfer(model, _Rename(rep, {'R06.4': 'R01.8'}))
    check_transfer_sound(model, _Rename(rep, {'R06.4': 'R01.8'}))
    from rules import round4 as _r4
    rep.rule('R01.12', 'slices of one operand list spread into a rebuilt node tile it up to single removed elements (= R02.15)')
    _r4.check_tiling_slices(model, rep, 'R01.12')
    rep.require('R01.1', 250)
    rep.require('R01.2', 40)
    rep.require('R01.4', 6)
