'''C09 Integration is exact quadrature of point evaluation - index bookkeeping siblings only.

Decided: R09.1 within the product sample _Mul every member decomposes the element index with the same divisor
(second factor's nelems) and strides points by the second factor's npoints; within the union sample _Add every member
splits at the first part's nelems and offsets by its nelems/npoints; R09.2 _Integral.lower contracts weights and
integrand over the point axes and sums over the SAME loop index that produced weights and lower args; every concrete
Sample class defines the four evaluable accessors.  Not decided: Gauss tables, exactness degrees, point containment,
trimmed mosaics (numerical tables).
'''

import ast

from sa import AnalysisError
from sa.pattern import pmatch, pfind
from sa.boolnf import equivalent
from sa.algebra import Poly, Unsupported
from sa.indexform import V, Concat, denote
from sa.astutil import dotted, src, stmt_text, params, find_stmts, calls_in, method_name, const, resolved_return, deep_resolved, if_branches


def _major_factor(e):
    """For an outer product written as `A[:, _] * B[_, :]` (any order) or numpy.outer(A, B) return (text of the factor that varies
    slowest after .ravel(), text of the other)."""
    if isinstance(e, ast.Call) and src(e.func) in ('numpy.outer', 'outer') and len(e.args) == 2:
        return src(e.args[0]), src(e.args[1])
    if isinstance(e, ast.BinOp) and isinstance(e.op, ast.Mult):
        roles = {}
        for side in (e.left, e.right):
            if isinstance(side, ast.Subscript) and isinstance(side.slice, ast.Tuple) and len(side.slice.elts) == 2:
                a, b = side.slice.elts
                isnew = lambda x: src(x) in ('_', 'None', 'numpy.newaxis')
                isall = lambda x: isinstance(x, ast.Slice) and x.lower is None and x.upper is None
                if isall(a) and isnew(b):
                    roles['major'] = src(side.value)
                elif isnew(a) and isall(b):
                    roles['minor'] = src(side.value)
        if len(roles) == 2:
            return roles['major'], roles['minor']
    return None


def check_tensor_points(model, rep):
    """R09.5: TensorPoints enumerates its points as (point of factor 1, point of factor 2) with factor 1 varying slowest (flat index
    i1 * npoints2 + i2).  coords, weights, tri and hull are separate members that each build this enumeration themselves: they must
    agree on which factor is the slow one, otherwise weights are paired with the coordinates of other points."""
    c = model.cls('points:TensorPoints')
    found = {}
    # coords: the block that receives points1.coords broadcast along axis 1 makes points1 the slow factor
    co = c.members['coords'].func
    for s_ in ast.walk(co.node):
        if isinstance(s_, ast.Assign) and isinstance(s_.targets[0], ast.Subscript) and isinstance(s_.value, ast.Subscript) and isinstance(s_.value.slice, ast.Tuple) and len(s_.value.slice.elts) == 3:
            a, b, _c = s_.value.slice.elts
            isnew = lambda x: src(x) in ('_', 'None', 'numpy.newaxis')
            owner = src(s_.value.value).replace('.coords', '')
            if isnew(b) and not isnew(a):
                found.setdefault('coords', {})['major'] = owner
            elif isnew(a) and not isnew(b):
                found.setdefault('coords', {})['minor'] = owner
    reshaped = any(isinstance(x, ast.Call) and method_name(x) == 'reshape' and src(x.args[0]) == 'self.npoints' for x in ast.walk(co.node) if isinstance(x, ast.Call) and x.args)
    if set(found.get('coords', {})) != {'major', 'minor'} or not reshaped:
        raise AnalysisError('TensorPoints.coords: the two broadcast assignments and the row-major reshape were not recognised')
    we = c.members['weights'].func
    mf = None
    for x in ast.walk(we.node):
        r = _major_factor(x) if isinstance(x, (ast.BinOp, ast.Call)) else None
        if r:
            mf = r
            break
    if mf is None or not any(isinstance(x, ast.Call) and method_name(x) == 'ravel' for x in ast.walk(we.node)):
        raise AnalysisError('TensorPoints.weights: outer product + ravel not recognised')
    found['weights'] = {'major': mf[0].replace('.weights', ''), 'minor': mf[1].replace('.weights', '')}
    # tri/hull: `<factor a index> * self.<factor b>.npoints + <factor b index>` makes a the slow factor
    for name in ('tri', 'hull'):
        fn = c.members[name].func
        for x in ast.walk(fn.node):
            if isinstance(x, ast.BinOp) and isinstance(x.op, ast.Add) and isinstance(x.left, ast.BinOp) and isinstance(x.left.op, ast.Mult) and src(x.left.right).endswith('.npoints'):
                stride_owner = src(x.left.right)[:-len('.npoints')]
                major = src(x.left.left.value if isinstance(x.left.left, ast.Subscript) else x.left.left).rsplit('.', 1)[0]
                minor = src(x.right.value if isinstance(x.right, ast.Subscript) else x.right).rsplit('.', 1)[0]
                ok = stride_owner == minor
                found.setdefault(name, {'major': major, 'minor': minor})
                if not ok:
                    rep.ob('R09.5', fn.key, fn.where(x), False, f'`{src(x)[:70]}` strides the index of {major} by the number of points of {stride_owner}, but adds an index of {minor}', statement=f'tensor-order {name} stride')
    ref = found['coords']
    for name, roles in found.items():
        ok = roles == ref
        fn = c.members[name].func
        rep.ob('R09.5', fn.key, fn.where(), ok, f'TensorPoints.{name} enumerates the points with {roles["major"]} varying slowest, as coords does' if ok else
               f'TensorPoints.{name} enumerates the points with {roles["major"]} varying slowest, coords with {ref["major"]}: the members are paired by position, so {name} of one point end up with the coordinates of another',
               statement=f'tensor-order {name}')
    if len(found) < 3:
        raise AnalysisError('TensorPoints: fewer than three members with a recognisable point order')


def check_degree_passthrough(model, rep):
    """R09.6: a reference that builds its points from the points of sub-references (children, tensor factors, mosaic) hands the
    requested degree on unchanged - the exactness of a Gauss rule is per sub-reference.  The one licensed change is the halving of the
    bezier degree for children (uniform point density); any arithmetic on `degree` must therefore be under a test for that scheme."""
    mod = model.module('element')
    n = 0
    from sa.guards import enclosing_conditions
    for f in model.functions.values():
        if f.module is not mod or f.name != 'getpoints' or isinstance(f.node, ast.Lambda):
            continue
        n += 1
        conds = enclosing_conditions(f.node)
        for s_ in ast.walk(f.node):
            if isinstance(s_, (ast.Assign, ast.AugAssign)) and any(isinstance(t, ast.Name) and t.id == 'degree' for t in (s_.targets if isinstance(s_, ast.Assign) else [s_.target])):
                arith = isinstance(s_, ast.AugAssign) or any(isinstance(x, ast.BinOp) for x in ast.walk(s_.value))
                if not arith:
                    continue
                under = conds.get(id(s_), ())
                ok = any("ischeme == 'bezier'" in t.replace('"', "'") and v for t, v in under)
                rep.ob('R09.6', f.key, f.where(s_), ok, f'`{stmt_text(s_)[:50]}` changes the degree only for the bezier scheme' if ok else
                       f'`{stmt_text(s_)[:50]}` changes the requested degree for schemes other than bezier: the sub-references get a Gauss rule of lower degree than requested, so polynomials of the '
                       'requested degree are no longer integrated exactly (the weights still sum to the volume)', statement='degree-unchanged')
        # a per-direction degree tuple handed to a rule of TOTAL degree (simplex Gauss) is reduced by its sum: a product of polynomials of degrees
        # d1, d2 has total degree d1 + d2; max/min/first entry under-integrate
        for c_ in ast.walk(f.node):
            if isinstance(c_, ast.Call) and len(c_.args) >= 1 and src(c_.args[0]) == 'degree' and src(c_.func) in ('max', 'min', 'sum', 'builtins.max', 'builtins.min', 'builtins.sum', 'numpy.max', 'numpy.sum', 'numpy.min', 'numpy.prod', 'numpy.mean'):
                ok = src(c_.func) in ('sum', 'builtins.sum', 'numpy.sum')
                rep.ob('R09.6', f.key, f.where(c_), ok, 'a degree tuple is reduced to the total degree by its sum' if ok else
                       f'`{src(c_)}` reduces the per-direction degrees to less than their sum: a Gauss rule of total degree sum(degree) is needed to integrate a product of polynomials of those degrees exactly', statement='degree-total')
            if isinstance(c_, ast.Subscript) and src(c_.value) == 'degree' and isinstance(c_.slice, ast.Constant) and f.cls is not None and f.cls.name.startswith('Simplex'):
                rep.ob('R09.6', f.key, f.where(c_), False, f'`{src(c_)}` picks one entry of the per-direction degrees for a rule of total degree', statement='degree-total')
    rep.ob('R09.6', 'element:getpoints', mod.relpath + ':1', True, f'{n} getpoints implementations inspected', statement='getpoints-inspected')
    if n < 6:
        raise AnalysisError(f'only {n} getpoints implementations found in element.py')


def check_degree_split(model, rep):
    """R09.7: a tensor reference ref1 x ref2 hands the first entry of a per-direction degree tuple to ref1 and the REST to ref2 (a single
    remaining entry as a number, several as a tuple for the nested tensor reference).  The statements that split the tuple are
    interpreted for tuples of 2, 3 and 4 entries and for a plain number: no entry may be lost or handed to the wrong factor."""
    from sa.shapes import ShapeExec, ShapeError, Raised
    from sa.algebra import Unsupported
    f = model.func('element:TensorReference.getpoints')
    rets = [r for r in f.node.body if isinstance(r, ast.Return)]
    if not rets:
        raise AnalysisError('TensorReference.getpoints: the final return was not found')
    last = rets[-1]
    calls = [c for c in ast.walk(last) if isinstance(c, ast.Call) and method_name(c) == 'getpoints']
    if len(calls) != 2 or src(calls[0].func.value) != 'self.ref1' or src(calls[1].func.value) != 'self.ref2':
        raise AnalysisError('TensorReference.getpoints: ref1.getpoints(...) * ref2.getpoints(...) was not found')
    start = next((k for k, s_ in enumerate(f.node.body) if isinstance(s_, (ast.Assign, ast.If)) and any(isinstance(n_, ast.Name) and isinstance(n_.ctx, ast.Store) and n_.id == 'ischeme1' for n_ in ast.walk(s_))), None)
    if start is None:
        raise AnalysisError('TensorReference.getpoints: the scheme split was not found')
    stmts = f.node.body[start + 1:f.node.body.index(last)]
    bad = None
    try:
        from sa.miniexec import MiniExec, RaisedIn, AssertionFailed
        for deg in ('d', ['d0', 'd1'], ['d0', 'd1', 'd2'], ['d0', 'd1', 'd2', 'd3']):
            ex = MiniExec({'degree': tuple(deg) if isinstance(deg, list) else deg, 'ischeme': 'gauss', 'ischeme1': 'gauss', 'ischeme2': 'gauss', 'tuple': tuple, 'isinstance': isinstance})
            ex.env['self'] = _self_with_helpers(model, 'element:TensorReference', ex)
            ex.run(stmts)
            d1, d2 = ex.ev(calls[0].args[1]), ex.ev(calls[1].args[1])
            tup = lambda x: list(x) if isinstance(x, tuple) else x
            d1, d2 = tup(d1), tup(d2)
            want1 = deg[0] if isinstance(deg, list) else deg
            want2 = deg if not isinstance(deg, list) else deg[1] if len(deg) == 2 else deg[1:]
            if d1 != want1 or d2 != want2:
                bad = (deg, d1, d2, want1, want2)
                break
    except (Unsupported, ShapeError, TypeError, ValueError, IndexError, KeyError, AttributeError) as e:
        raise AnalysisError(f'TensorReference.getpoints: the degree split uses a construct the interpreter does not know: {e}')
    rep.ob('R09.7', f.key, f.where(stmts[0]) if stmts else f.where(), bad is None, 'the per-direction degree tuple is split as (first entry -> ref1, rest -> ref2) without loss for 2, 3 and 4 entries' if bad is None else
           f'for the degree {tuple(bad[0]) if isinstance(bad[0], list) else bad[0]} ref1 gets {bad[1]} and ref2 gets {bad[2]}; it should be {bad[3]} and {bad[4]}: a direction is integrated with the degree requested for another one, '
           'so polynomials of the requested degree in that direction are no longer integrated exactly', statement='degree-split')


def _self_with_helpers(model, cls_key, ex):
    """An abstract `self` whose private helper methods (static or not) are interpreted when the fragment calls them (sa.miniexec.Closure)."""
    from sa.miniexec import Sym, Closure
    c = model.cls(cls_key)
    me = Sym()
    for name, mem in c.members.items():
        if mem.func is None or isinstance(mem.func.node, ast.Lambda) or not name.startswith('_') or name.startswith('__'):
            continue
        node = mem.func.node
        static = any(src(d) == 'staticmethod' for d in node.decorator_list)
        if any(src(d) not in ('staticmethod',) for d in node.decorator_list):
            continue
        clo = Closure(node, ex)
        setattr(me, name, clo if static else (lambda *a, clo=clo: clo(me, *a)))
    return me


def _leaf_calls(table):
    def leaf(n):
        if isinstance(n, ast.Call):
            return table.get(src(n.func))
        return None
    return leaf


def _simple_bindings(fn):
    """local name -> bound expression, for names bound exactly once by a plain assignment"""
    out, seen = {}, {}
    for n in ast.walk(fn):
        if isinstance(n, ast.Name) and isinstance(n.ctx, ast.Store):
            seen[n.id] = seen.get(n.id, 0) + 1
    for n in ast.walk(fn):
        if isinstance(n, ast.Assign) and len(n.targets) == 1 and isinstance(n.targets[0], ast.Name) and seen.get(n.targets[0].id) == 1:
            out[n.targets[0].id] = n.value
    return out


def _denotes(expr, leaf, expected, names=None):
    """expr denotes the expected index form (sa.indexform); an expression the interpreter cannot read does not"""
    if expr is None:
        return False
    try:
        got = denote(expr, leaf, names)
    except Unsupported:
        return False
    return got == expected(Poly.atom)


def run(model, rep, tier):
    rep.explanation = (
        'R09.1 sibling agreement inside sample._Mul (getindex, get_evaluable_indices, get_evaluable_weights, get_lower_args all use divmod(ielem, self._sample2.nelems); point indices are '
        'index1 * self._sample2.npoints + index2; weights are the outer product; lower args are multiplied in the same factor order) and inside sample._Add (getindex, get_element_tri, get_element_hull, take_elements '
        'split at self._sample1.nelems and shift element indices by it, point indices by self._sample1.npoints; tri/hull/bind concatenate in the same order). R09.2 _Integral.lower builds weights and lower args from one '
        'loop index, contracts `B,ABC->AC` and loop-sums over that index; _ConcatenatePoints concatenates over its own index. R09.3 every concrete Sample subclass provides getindex/get_evaluable_indices/'
        'get_evaluable_weights/get_lower_args or integrates/binds by delegation to its parts. These decide only that the pieces of the index bookkeeping agree with each other; Gauss tables, exactness and trimmed elements are NOT decided.')
    rep.rule('R09.1', 'sibling members of _Mul/_Add use one decomposition of element and point indices')
    rep.rule('R09.2', '_Integral/_ConcatenatePoints use one loop index for weights, lower args and the reduction')
    rep.rule('R09.3', 'every concrete sample defines the four accessors')
    rep.rule('R09.5', 'TensorPoints: coords, weights, tri and hull agree on the slow factor of the point enumeration')
    rep.rule('R09.6', 'getpoints hands the requested degree to sub-references unchanged (bezier halving only under its scheme test)')
    rep.rule('R09.7', 'TensorReference splits a per-direction degree tuple into (first, rest) without loss (interpreted for 2-4 entries)')
    rep.rule('R09.4', 'transformed points scale weights by the absolute determinant')
    M = model.cls('sample:_Mul')
    for name in ('getindex', 'get_evaluable_indices', 'get_evaluable_weights', 'get_lower_args'):
        f = M.members[name].func
        # decided on what the member returns, with its locals resolved (sa.pattern): the names of the intermediate values do not matter
        raw = params(f.node)[0][1]
        R = resolved_return(f.node)
        dms = {src(c) for c in ast.walk(R) if isinstance(c, ast.Call) and method_name(c) == 'divmod'} if R is not None else set()
        DM = {f'divmod({raw}, self._sample2.nelems)', f'evaluable.divmod({raw}, self._sample2.nelems)'}
        ok = len(dms) == 1 and dms <= DM
        rep.ob('R09.1', f.key, f.where(), ok, 'element index decomposed as divmod(ielem, sample2.nelems) -> (ielem1, ielem2)' if ok else
               f'_Mul.{name} does not decompose the element index with divmod(ielem, self._sample2.nelems): it disagrees with the sibling members and with nelems = n1*n2 (second factor fastest)', statement=f'{name}: divisor')
        dm = next(iter(dms)) if dms else '?'
        t = src(R) if R is not None else ''
        c1 = [c for c in ast.walk(R) if isinstance(c, ast.Call) and src(c.func) == f'self._sample1.{name}'] if R is not None else []
        c2 = [c for c in ast.walk(R) if isinstance(c, ast.Call) and src(c.func) == f'self._sample2.{name}'] if R is not None else []
        ok = bool(c1) and bool(c2) and all(len(c.args) == 1 and src(c.args[0]) == f'{dm}[0]' for c in c1) and all(len(c.args) == 1 and src(c.args[0]) == f'{dm}[1]' for c in c2)
        rep.ob('R09.1', f.key, f.where(), ok, 'factor 1 receives ielem1, factor 2 receives ielem2' if ok else f'_Mul.{name} passes the decomposed indices to the wrong factors', statement=f'{name}: routing')
    g = M.members['getindex'].func
    # decided on what the returned index expression denotes (sa.indexform): index1 * npoints2 + index2 over the axes (points1, points2), flattened
    ok = _denotes(resolved_return(g.node), _leaf_calls({'self._sample1.getindex': ('I1', ('a',)), 'self._sample2.getindex': ('I2', ('b',))}),
                  lambda A: V(A('I1') * A('self._sample2.npoints') + A('I2'), (('flat', 'a', 'b'),)))
    rep.ob('R09.1', g.key, g.where(), ok, 'point index = index1 * sample2.npoints + index2' if ok else '_Mul.getindex no longer strides by self._sample2.npoints', statement='getindex: stride')
    g = M.members['get_evaluable_indices'].func
    m = pmatch('evaluable.appendaxes(I1_ * self._sample2.npoints, I2_.shape) + evaluable.prependaxes(I2_, I1_.shape)', resolved_return(g.node))
    ok = m is not None and src(m['I1_']).startswith('self._sample1.get_evaluable_indices(') and src(m['I2_']).startswith('self._sample2.get_evaluable_indices(')
    rep.ob('R09.1', g.key, g.where(), ok, 'evaluable point index = index1 * sample2.npoints (+axes) + index2' if ok else '_Mul.get_evaluable_indices strides differently from getindex', statement='evaluable-indices: stride')
    g = M.members['get_evaluable_weights'].func
    m = pmatch("evaluable.einsum('A,B->AB', W1_, W2_)", resolved_return(g.node))
    ok = m is not None and src(m['W1_']).startswith('self._sample1.get_evaluable_weights(') and src(m['W2_']).startswith('self._sample2.get_evaluable_weights(')
    rep.ob('R09.1', g.key, g.where(), ok, 'weights are the outer product in factor order' if ok else '_Mul weights are no longer the outer product weights1 x weights2', statement='weights: outer')
    g = M.members['get_lower_args'].func
    m = pmatch('self._sample1.get_lower_args(A_) * self._sample2.get_lower_args(B_)', resolved_return(g.node))
    ok = m is not None
    rep.ob('R09.1', g.key, g.where(), ok, 'lower args multiply in factor order', statement='lower-args: order')
    init = M.members['__init__'].func
    ok = 'sample1.nelems * sample2.nelems, sample1.npoints * sample2.npoints' in src(init.node) and 'sample1.spaces + sample2.spaces' in src(init.node)
    rep.ob('R09.1', init.key, init.where(), ok, 'product sample announces n1*n2 elements and p1*p2 points', statement='mul-counts')
    Ad = model.cls('sample:_Add')
    # getindex / get_element_tri / get_element_hull are INTERPRETED (sa.miniexec) for a union of 3 + 2 elements with symbolic per-element results: an element below
    # nelems1 is answered by part 1 at the same index, the others by part 2 at index - nelems1, and only the point indices of part 2 are shifted by npoints1
    from sa.miniexec import MiniExec, Sym, Returned, RaisedIn, AssertionFailed
    for name in ('getindex', 'get_element_tri', 'get_element_hull'):
        f = Ad.members[name].func
        p = params(f.node)[0][1]
        bad = None
        try:
            for i in range(5):
                ex = MiniExec({p: i, 'numpy': Sym(add=lambda a_, b_: a_ + b_, asarray=lambda a_: a_)})
                me = _self_with_helpers(model, 'sample:_Add', ex)
                mk = lambda tag: Sym(nelems=3 if tag == 1 else 2, npoints=Poly.atom(f'P{tag}'), **{m_: (lambda j, m_=m_, tag=tag: Poly.atom(f'{m_}{tag}[{j}]')) for m_ in ('getindex', 'get_element_tri', 'get_element_hull')})
                me._sample1, me._sample2 = mk(1), mk(2)
                ex.env['self'] = me
                try:
                    ex.run(f.node.body)
                    got = None
                except Returned as r:
                    got = r.value
                want = Poly.atom(f'{name}1[{i}]') if i < 3 else Poly.atom(f'{name}2[{i - 3}]') + (Poly.atom('P1') if name == 'getindex' else Poly.const(0))
                if not (isinstance(got, Poly) and got == want):
                    bad = (i, got, want)
                    break
        except (Unsupported, AssertionFailed, RaisedIn, TypeError, ValueError, KeyError, IndexError, AttributeError) as e:
            raise AnalysisError(f'_Add.{name} uses a construct the interpreter does not know: {type(e).__name__}: {e}')
        rep.ob('R09.1', f.key, f.where(), bad is None, 'elements below sample1.nelems belong to part 1, the rest to part 2 shifted by sample1.nelems' + (' (point indices by sample1.npoints)' if name == 'getindex' else '') if bad is None else
               f'_Add.{name} splits or shifts the element index differently from its siblings: element {bad[0]} of a union of 3 + 2 elements gives {bad[1]!r}, expected {bad[2]!r}', statement=f'{name}: split')
    g = Ad.members['getindex'].func
    ok = True
    rep.ob('R09.1', g.key, g.where(), ok, 'point indices of part 2 are shifted by sample1.npoints (interpreted above)', statement='getindex: offset')
    for name in ('tri', 'hull'):
        f = Ad.members[name].func
        ok = _denotes(resolved_return(f.node), lambda n: None,
                      lambda A: Concat([V(A(f'self._sample1.{name}')), V(A(f'self._sample2.{name}') + A('self._sample1.npoints'))]))
        rep.ob('R09.1', f.key, f.where(), ok, f'{name} of part 2 is shifted by sample1.npoints', statement=f'{name}: offset')
    f = Ad.members['take_elements'].func
    t = src(f.node)
    MK = 'numpy.less(__indices, self._sample1.nelems)'
    m = pmatch('self._sample1.take_elements(A_) + self._sample2.take_elements(B_)', resolved_return(f.node))
    leaf = lambda n: ('__indices', ('i',)) if isinstance(n, ast.Name) and n.id == '__indices' else None
    LT = 'lt(__indices,self._sample1.nelems)'
    ok = m is not None and _denotes(m['A_'], leaf, lambda A: V(A(f'sel(__indices;{LT})'), (f'i|{LT}',))) and \
        _denotes(m['B_'], leaf, lambda A: V(A(f'sel(__indices;not {LT})') - A('self._sample1.nelems'), (f'i|not {LT}',)))
    rep.ob('R09.1', f.key, f.where(), ok, 'take_elements splits at sample1.nelems like getindex', statement='take_elements: split')
    f = Ad.members['_integral'].func
    ok = 'self._sample1.integral(func) + self._sample2.integral(func)' in src(f.node)
    rep.ob('R09.1', f.key, f.where(), ok, 'the integral over a union is the sum of the integrals', statement='add-integral')
    f = Ad.members['_bind'].func
    ok = 'numpy.concatenate([self._sample1._bind(func), self._sample2._bind(func)])' in src(f.node)
    rep.ob('R09.1', f.key, f.where(), ok, 'bound values are concatenated in part order', statement='add-bind')
    init = Ad.members['__init__'].func
    ok = 'sample1.nelems + sample2.nelems, sample1.npoints + sample2.npoints' in src(init.node)
    rep.ob('R09.1', init.key, init.where(), ok, 'union sample announces n1+n2 elements and p1+p2 points', statement='add-counts')
    # R09.2
    I = model.cls('sample:_Integral').members['lower'].func
    t = src(I.node)
    R = resolved_return(I.node)
    m = pmatch('evaluable.loop_sum(E_, IDX_)', R)
    li = {src(c) for c in ast.walk(R) if isinstance(c, ast.Call) and src(c.func) == 'evaluable.loop_index'} if R is not None else set()
    ok = m is not None and len(li) == 1 and pmatch('evaluable.loop_index(N_, self._sample.nelems)', m['IDX_']) is not None
    rep.ob('R09.2', I.key, I.where(), ok, 'one loop index over the sample elements', statement='loop-index')
    m2 = pmatch("evaluable.einsum('B,ABC->AC', W_, G_, B=W_.ndim, C=self.ndim)", m['E_']) if m is not None else None
    ok = m2 is not None
    rep.ob('R09.2', I.key, I.where(), ok, 'element integral = sum over point axes of weight * integrand' if ok else 'the contraction of weights with the integrand changed', statement='contraction')
    mw = pmatch('evaluable.astype(self._sample.get_evaluable_weights(IDX_), self.dtype)', m2['W_'], {'IDX_': m['IDX_']}) if m2 is not None else None
    mg = pmatch('evaluable.astype(self._integrand.lower(A_), self.dtype)', m2['G_']) if m2 is not None else None
    ma = pmatch('args * self._sample.get_lower_args(IDX_)', mg['A_'], {'IDX_': m['IDX_']}) if mg is not None else None
    ok = mw is not None and mg is not None and ma is not None
    rep.ob('R09.2', I.key, I.where(), ok, 'weights, lower args and the loop sum use the same element index' if ok else
           '_Integral.lower takes weights, lower args and the reduction from different indices', statement='same-index')
    ok = mg is not None and pmatch('args * self._sample.get_lower_args(X_)', mg['A_']) is not None
    rep.ob('R09.2', I.key, I.where(), ok, 'the integrand is lowered at the sample points appended to the outer points', statement='lower-order')
    C = model.cls('sample:_ConcatenatePoints').members['lower'].func
    t = src(C.node)
    lc = [c for c in calls_in(C.node) if src(c.func) == 'evaluable.loop_concatenate' and len(c.args) == 2]
    gl = [c for c in calls_in(C.node) if src(c.func) == 'self._sample.get_lower_args' and len(c.args) == 1]
    li = {src(c) for c in calls_in(C.node) if src(c.func) == 'evaluable.loop_index'}
    ok = len(lc) == 1 and len(gl) == 1 and len(li) == 1
    if ok:  # whatever the index is called: both resolve to the one loop index
        idx = src(deep_resolved(C.node, lc[0].args[1]))
        ok = idx in li and src(deep_resolved(C.node, gl[0].args[0])) == idx
    rep.ob('R09.2', C.key, C.where(), ok, 'points are concatenated over the same element index that produced them', statement='concatenate-index')
    # R09.1c: a composite sample never hands its own raw element index to a component's accessor (index spaces differ)
    ACCESSORS = ('getindex', 'get_evaluable_indices', 'get_evaluable_weights', 'get_lower_args', 'get_element_tri', 'get_element_hull')
    from sa.guards import enclosing_conditions
    nraw = 0
    for cname in ('_Mul', '_Zip', '_TakeElements', '_Add'):
        c = model.cls(f'sample:{cname}')
        for mem in c.members.values():
            f = mem.func
            if f is None or mem.name not in ACCESSORS:
                continue
            pos = params(f.node)[0]
            if len(pos) < 2:
                continue
            raw = pos[1]
            conds = enclosing_conditions(f.node)
            # a parameter that the member re-binds no longer denotes the composite index where it is used afterwards (e.g. `part, ielem = self._split(ielem)`);
            # for _Add the values are decided by interpretation above
            rebound = [n_.lineno for n_ in ast.walk(f.node) if isinstance(n_, ast.Name) and n_.id == raw and isinstance(n_.ctx, ast.Store)]
            for call in calls_in(f.node):
                if rebound and call.lineno > min(rebound):
                    continue
                if method_name(call) in ACCESSORS and isinstance(call.func, ast.Attribute) and src(call.func.value) != 'self' and call.args and src(call.args[0]) == raw:
                    nraw += 1
                    licensed = cname == '_Add' and any(t.replace(' ', '') == f'{raw}<self._sample1.nelems' and v for t, v in conds.get(id(call), ()))
                    rep.ob('R09.1', f.key, f.where(call), licensed, f'`{src(call)[:60]}` passes the composite index on only where it is the component index (first part of a union)' if licensed else
                           f'`{src(call)[:70]}` hands the element index of the composite sample `{raw}` unchanged to a component sample, whose elements are numbered differently '
                           f'(the sibling members first map it through divmod / self._ielems / self._indices)', statement=f'raw index to component in {mem.name}')
    z = model.cls('sample:_Zip').members['get_evaluable_weights'].func
    t = src(z.node)
    ok = pmatch('evaluable._take(evaluable._flat(self._samples[0].get_evaluable_weights(evaluable.Take(evaluable.Constant(self._ielems[0]), ielem))), '
                'evaluable.Take(evaluable.Constant(self._ilocals[0]), self._getslice(ielem)), axis=0)', resolved_return(z.node)) is not None
    rep.ob('R09.1', z.key, z.where(), ok, 'zip weights: first sample\'s weights at its own element index, restricted to the zipped points' if ok else
           '_Zip.get_evaluable_weights no longer looks the weights up at the first sample\'s own element index (self._ielems[0]) and local slice', statement='zip-weights')
    # R09.4: transformed points scale the weights by the ABSOLUTE determinant (reflected children have negative determinants)
    tp = model.cls('points:TransformPoints').members['weights'].func
    dets = [n for n in ast.walk(tp.node) if isinstance(n, ast.Attribute) and n.attr == 'det']
    ok = bool(dets) and all(any(isinstance(c, ast.Call) and src(c.func) in ('abs', 'numpy.abs', 'numpy.absolute', 'builtins.abs') and any(x is d for x in ast.walk(c)) for c in ast.walk(tp.node)) for d in dets) \
        and 'self.points.weights *' in src(tp.node)
    rep.ob('R09.4', tp.key, tp.where(), ok, 'weights of transformed points = weights * |det|' if ok else
           'TransformPoints.weights multiplies by the signed determinant: reflected children (central child of a triangle) get negative weights and the weights no longer sum to the volume', statement='abs-det')
    # R09.3
    S = model.cls('sample:Sample')
    need = ['getindex', 'get_evaluable_indices', 'get_evaluable_weights', 'get_lower_args']
    n = 0
    for c in model.subclasses(S, strict=True):
        if c.name.startswith('_Tensorial') or c.name in ('_TransformChainsSample',):
            continue
        n += 1
        missing = []
        for name in need:
            found = model.lookup(c, name)
            if found is None or found[0] is S:
                missing.append(name)
        delegates = all(name in c.members for name in ('_integral', '_bind', 'getindex'))
        ok = not missing or delegates
        rep.ob('R09.3', c.key, f'{c.module.relpath}:{c.node.lineno}', ok,
               ('defines (or inherits a concrete) getindex/get_evaluable_indices/get_evaluable_weights/get_lower_args' if not missing else
                f'integrates and binds by delegation to its parts (_integral, _bind, getindex overridden); {missing} stay abstract and refuse loudly') if ok else
               f'{c.name} lacks {missing} (abstract in Sample) and does not override _integral/_bind: integrating over it fails or uses nothing', statement='accessors')
        if missing and delegates:
            rep.info(f'R09.3 {c.key}: {missing} are not implemented; zip()/basis() of such a sample raise NotImplementedError (a refusal, not a wrong value)')
    if n < 6:
        raise AnalysisError(f'only {n} concrete sample classes found')
    check_tensor_points(model, rep)
    check_degree_passthrough(model, rep)
    check_degree_split(model, rep)
    rep.rule('R09.8', 'take_elements and _offsets never return on counts alone: the selection / the point counts are read element by element (rules/shortcuts.py)')
    from rules import shortcuts
    nte = 0
    for c in sorted(model.classes.values(), key=lambda c: c.key):
        mem = c.members.get('take_elements')
        if c.module.short != 'sample' or mem is None or mem.func is None or c.name == '_Empty':    # the empty sample is its own sub-sample
            continue
        nte += shortcuts.check(model, rep, 'R09.8', mem.func.key, why='as many indices as elements is not the identity selection (a permutation or repetition has the same count): the sub-sample would silently be the whole sample in its original order')
    shortcuts.check(model, rep, 'R09.8', 'sample:_offsets', param='pointsseq', why='a total that equals count x first says nothing about the individual point counts: offsets of a non-uniform sequence would be wrong')
    if nte < 4:
        raise AnalysisError(f'R09.8: only {nte} take_elements returns found')
    from rules import round5 as _r5
    rep.rule('R09.11', 'weights per target exclude skip_missing in locate; subset reads its mask through the advertised index')
    _r5.check_locate_weights_guard(model, rep, 'R09.11')
    _r5.check_subset_by_index(model, rep, 'R09.11')
    rep.rule('R09.9', 'every name loaded in sample.py, points.py, pointsseq.py and element.py resolves (symtable)')
    from rules import names as _names
    _names.check(model, rep, 'R09.9', ('sample', 'points', 'pointsseq', 'element'), 300)
    from rules import round4 as _r4
    rep.rule('R09.10', 'all three components of slice.indices() are used (pointsseq, sample); _Zip.getindex reads the stored point numbers; composite scheme strings are split at the first *')
    _r4.check_slice_components(model, rep, 'R09.10', ('pointsseq', 'sample', 'points'))
    _r4.check_zip_index(model, rep, 'R09.10')
    _r4.check_scheme_split(model, rep, 'R09.10')
    rep.require('R09.1', 20)
    rep.require('R09.2', 5)
