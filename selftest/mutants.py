'''Seeded faults (expect='fire') and benign twins (expect='silent') for the self-test.

Every entry edits exactly one occurrence of `old` in `file` (relative to src/nutils).  If the
anchor text is absent on the tree under test the mutant is counted as inapplicable.
'''

MUTANTS = []


def M(prop, name, file, old, new, expect='fire', rule=None):
    MUTANTS.append(dict(property=prop, name=name, file=file, old=old, new=new, expect=expect, rule=rule))


# ---------------------------------------------------------------- C14
M('C14', 'revert F2a: direct branch accepts NaN', 'solver.py',
  "            if not numpy.isfinite(resnorm):\n                raise SolverError('residual norm is not finite')\n            if resnorm > tol > 0:",
  "            if resnorm > tol > 0:", rule='R14.1')
M('C14', 'revert F2b: loop exits on NaN', 'solver.py',
  "            while iiter < miniter or not resnorm <= tol:\n                if not numpy.isfinite(resnorm):\n                    raise SolverError('residual norm is not finite')\n",
  "            while iiter < miniter or resnorm > tol:\n", rule='R14.1')
M('C14', 'revert F2c: legacy loop exits on NaN', 'solver.py',
  "                while not info.resnorm <= tol or iiter < miniter:\n                    if not numpy.isfinite(info.resnorm):\n                        raise SolverError('residual norm is not finite')\n",
  "                while info.resnorm > tol or iiter < miniter:\n", rule='R14.1')
M('C14', 'revert F3: linear gate accepts NaN residual', 'matrix/_base.py',
  "        if not numpy.isfinite(resnorm):\n            raise MatrixError('solver returned with non-finite residual')\n", "", rule='R14.1')
M('C14', 'loop condition and->or slip (unconverged accepted)', 'solver.py',
  "            while iiter < miniter or not resnorm <= tol:", "            while iiter < miniter and not resnorm <= tol:", rule='R14.1')
M('C14', 'tolerance test compares with the wrong bound', 'matrix/_base.py',
  "        if resnorm > atol > 0:\n            raise ToleranceNotReached(lhs)", "        if resnorm > atol > 1:\n            raise ToleranceNotReached(lhs)", rule='R14.1')
M('C14', 'delete the isfinite(lhs) test', 'matrix/_base.py',
  "        if not numpy.isfinite(lhs).all():\n            raise MatrixError('solver returned non-finite left hand side')\n", "", rule='R14.2')
M('C14', 'residual taken from the reduced update instead of recomputed', 'matrix/_base.py',
  "resnorm = numpy.linalg.norm(rhs - self @ lhs, axis=0).max()", "resnorm = numpy.linalg.norm(lhs, axis=0).min() * 0", rule='R14.2')
M('C14', 'swallow backend exceptions', 'matrix/_base.py',
  "        except Exception as e:\n            raise MatrixError('solver failed with error: {}'.format(e)) from e\n        if not numpy.isfinite(lhs).all():",
  "        except Exception as e:\n            lhs = numpy.zeros_like(rhs)\n        if not numpy.isfinite(lhs).all():", rule='R14.3')
M('C14', 'backend exception escapes unwrapped', 'matrix/_base.py',
  "        except MatrixError:\n            raise\n        except Exception as e:\n            raise MatrixError('solver failed with error: {}'.format(e)) from e\n",
  "        except MatrixError:\n            raise\n", rule='R14.3')
M('C14', 'lhs[I] += instead of lhs[J] +=', 'matrix/_base.py',
  "            lhs[J] += self.submatrix(I, J)._solver(", "            lhs[I] += self.submatrix(I, J)._solver(", rule='R14.4')
M('C14', 'constrained values written at the free entries', 'matrix/_base.py',
  "                lhs[~J] = constrain[~J]", "                lhs[J] = constrain[J]", rule='R14.4')
M('C14', 'solve_leniently swallows every MatrixError', 'matrix/_base.py',
  "        except ToleranceNotReached as e:\n            treelog.warning(e)\n            return e.best", "        except MatrixError as e:\n            treelog.warning(e)\n            return getattr(e, 'best', None)", rule='R14.3')
M('C14', 'step retries without decreasing maxretry', 'solver.py', "maxretry=maxretry-1)", "maxretry=maxretry)", rule='R14.3')
M('C14', 'step catches every exception', 'solver.py', "        except (SolverError, matrix.MatrixError) as e:", "        except Exception as e:", rule='R14.3')
M('C14', 'tol<=0 check dropped', 'solver.py',
  "            if tol <= 0:\n                raise ValueError('iterative solver requires a strictly positive tolerance')\n", "", rule='R14.3')
M('C14', 'NaN written at the wrong dofs in solve_constraints', 'solver.py', "        x[mycons] = numpy.nan", "        x[~mycons] = numpy.nan", rule='R14.4')
M('C14', 'direct call of a backend solver bypassing the gate', 'solver.py',
  "        dx = jac.solve(res, **linargs)\n        x -= dx\n        return system.construct(arguments, x), numpy.linalg.norm(res - jac @ dx)",
  "        dx = jac._solver_direct(res, 0.)\n        x -= dx\n        return system.construct(arguments, x), numpy.linalg.norm(res - jac @ dx)", rule='R14.5')
M('C14', 'benign: explicit isfinite guard spelled with isnan/isinf', 'matrix/_base.py',
  "        if not numpy.isfinite(resnorm):\n            raise MatrixError('solver returned with non-finite residual')\n",
  "        if not resnorm <= numpy.inf or numpy.isnan(resnorm):\n            raise MatrixError('solver returned with non-finite residual')\n", expect='silent')
M('C14', 'benign: gate written as not resnorm <= atol', 'matrix/_base.py',
  "        if resnorm > atol > 0:\n            raise ToleranceNotReached(lhs)", "        if atol > 0 and not resnorm <= atol:\n            raise ToleranceNotReached(lhs)", expect='silent')
M('C14', 'benign: rename residual variable', 'matrix/_base.py',
  "        resnorm = numpy.linalg.norm(rhs - self @ lhs, axis=0).max()\n        treelog.debug('solver returned with residual {:.0e}'.format(resnorm))\n        if not numpy.isfinite(resnorm):\n            raise MatrixError('solver returned with non-finite residual')\n        if resnorm > atol > 0:",
  "        rn = numpy.linalg.norm(rhs - self @ lhs, axis=0).max()\n        treelog.debug('solver returned with residual {:.0e}'.format(rn))\n        if not numpy.isfinite(rn):\n            raise MatrixError('solver returned with non-finite residual')\n        if rn > atol > 0:", expect='silent')
M('C14', 'benign: conjunct order in loop test', 'solver.py',
  "            while iiter < miniter or not resnorm <= tol:", "            while not resnorm <= tol or iiter < miniter:", expect='silent')

# ---------------------------------------------------------------- C15
M('C15', 'revert F4a: non-strict column order', 'matrix/__init__.py', "numpy.greater(colidx[1:], colidx[:-1], out=colidx_is_increasing[1:-1])",
  "numpy.greater_equal(colidx[1:], colidx[:-1], out=colidx_is_increasing[1:-1])", rule='R15.2')
M('C15', 'revert F4b: negative columns accepted', 'matrix/__init__.py', "            all(colidx >= 0) and\n", "", rule='R15.2')
M('C15', 'drop rowptr[-1] == len(values)', 'matrix/__init__.py', "            all(rowptr[1:] >= rowptr[:-1]) and\n            rowptr[-1] == len(values)):", "            all(rowptr[1:] >= rowptr[:-1])):", rule='R15.2')
M('C15', 'colidx <= ncols off by one', 'matrix/__init__.py', "            all(colidx < ncols)):", "            all(colidx <= ncols)):", rule='R15.2')
M('C15', 'row starts no longer exempted', 'matrix/__init__.py', "    colidx_is_increasing[rowptr] = True\n", "    colidx_is_increasing[0] = colidx_is_increasing[-1] = True\n", rule='R15.2')
M('C15', 'guard only warns', 'matrix/__init__.py', "    if not colidx_is_increasing.all():\n        raise MatrixError('column indices are not stricty increasing')",
  "    if not colidx_is_increasing.all():\n        warnings.warning('column indices are not stricty increasing')", rule='R15.2')
M('C15', 'diag enters the backend directly', 'matrix/__init__.py', "    return assemble_csr(d, numpy.arange(n+1), numpy.arange(n), n)",
  "    return backend.current.assemble(numpy.asarray(d), numpy.arange(n+1), numpy.arange(n), n)", rule='R15.1')
M('C15', 'gateway swaps rowptr and colidx', 'matrix/__init__.py', "    return backend.current.assemble(values, rowptr, colidx, ncols)", "    return backend.current.assemble(values, colidx, rowptr, ncols)", rule='R15.3')
M('C15', 'pickling swaps rowptr and colidx', 'matrix/_base.py', "        return assemble_csr, (data, rowptr, colidx, self.shape[1])", "        return assemble_csr, (data, colidx, rowptr, self.shape[1])", rule='R15.3')
M('C15', 'pickling uses the row count as ncols', 'matrix/_base.py', "        return assemble_csr, (data, rowptr, colidx, self.shape[1])", "        return assemble_csr, (data, rowptr, colidx, self.shape[0])", rule='R15.3')
M('C15', 'numpy csr export swaps indices and pointers', 'matrix/_numpy.py', "            return self.core[rows, cols], cols, rows.searchsorted(numpy.arange(self.shape[0]+1))",
  "            return self.core[rows, cols], rows.searchsorted(numpy.arange(self.shape[0]+1)), cols", rule='R15.3')
M('C15', '__sub__ forgets the negation', 'matrix/_base.py', "        return self.__add__(-other)", "        return self.__add__(other)", rule='R15.6')
M('C15', '__truediv__ multiplies', 'matrix/_base.py', "        return self.__mul__(1/other)", "        return self.__mul__(other)", rule='R15.6')
M('C15', 'submatrix cache ignores the columns', 'matrix/_base.py',
  "        if self._cached_submatrix is None or (rows != self._cached_rows).any() or (cols != self._cached_cols).any():",
  "        if self._cached_submatrix is None or (rows != self._cached_rows).any():", rule='R15.6')
M('C15', 'mkl export returns one-based columns', 'matrix/_mkl.py', "            return self.data, self.colidx-1, self.rowptr-1", "            return self.data, self.colidx, self.rowptr-1", rule='R15.5')
M('C15', 'mkl convert forgets the +1', 'matrix/_mkl.py', "        return MKLMatrix(data.astype(self.dtype, copy=False), rowptr+1, colidx+1, self.shape[1])",
  "        return MKLMatrix(data.astype(self.dtype, copy=False), rowptr+1, colidx, self.shape[1])", rule='R15.5')
M('C15', 'scipy backend export misses coo', 'matrix/_scipy.py', "        if form == 'coo':\n            coo = self.core.tocoo()\n            return coo.data, (coo.row, coo.col)\n", "", rule='R15.3')
M('C15', 'benign: strictness via compare operator', 'matrix/__init__.py', "    numpy.greater(colidx[1:], colidx[:-1], out=colidx_is_increasing[1:-1])",
  "    colidx_is_increasing[1:-1] = colidx[1:] > colidx[:-1]", expect='silent')
M('C15', 'benign: strictness via less(prev, next)', 'matrix/__init__.py', "    numpy.greater(colidx[1:], colidx[:-1], out=colidx_is_increasing[1:-1])",
  "    numpy.less(colidx[:-1], colidx[1:], out=colidx_is_increasing[1:-1])", expect='silent')
M('C15', 'benign: guards split into separate ifs', 'matrix/__init__.py',
  "    if not (colidx.ndim == 1 and\n            colidx.dtype.kind in 'ui' and\n            len(colidx) == rowptr[-1] and\n            all(colidx >= 0) and\n            all(colidx < ncols)):\n        raise MatrixError('assemble received invalid column indices')",
  "    if colidx.ndim != 1 or colidx.dtype.kind not in 'ui':\n        raise MatrixError('assemble received invalid column indices')\n    if len(colidx) != rowptr[-1]:\n        raise MatrixError('assemble received invalid column indices')\n    if not numpy.all(colidx >= 0) or not (colidx < ncols).all():\n        raise MatrixError('assemble received invalid column indices')", expect='silent')
M('C15', 'benign: rowptr monotone via numpy.diff', 'matrix/__init__.py', "            all(rowptr[1:] >= rowptr[:-1]) and", "            (numpy.diff(rowptr) >= 0).all() and", expect='silent')

# ---------------------------------------------------------------- C13
M('C13', 'revert F1: undefined name arguments', 'function.py', "        elif arg.name not in array.arguments:\n            continue", "        elif arg.name not in arguments:\n            continue", rule='R13.1')
M('C13', 'revert F8: raw specification membership', 'function.py', "if name not in self._replacements}", "if name not in replacements}", rule='R13.4')
M('C13', 'drop the dtype guard before yield', 'function.py',
  "            elif new.dtype != arg.dtype:\n                raise ValueError(f'Argument {arg.name!r} has dtype {arg.dtype.__name__} but the replacement has dtype {new.dtype.__name__}.')\n", "", rule='R13.2')
M('C13', 'shape guard compares ndim only', 'function.py', "            if new.shape != arg.shape:\n                raise ValueError(f'Argument {arg.name!r} has shape",
  "            if new.ndim != arg.ndim:\n                raise ValueError(f'Argument {arg.name!r} has shape", rule='R13.2')
M('C13', 'non-Argument keys accepted silently', 'function.py', "        elif not isinstance(arg, Argument):\n            raise ValueError('Key must be string or argument')\n        elif arg.name",
  "        elif not isinstance(arg, Argument):\n            continue\n        elif arg.name", expect='silent')   # silently skipping is a different contract but rejects nothing wrongly -> not decidable here
M('C13', 'Argument key signature check dropped', 'function.py',
  "        elif array.arguments[arg.name] != (arg.shape, arg.dtype):\n            raise ValueError(f'Argument {arg.name!r} has wrong shape or dtype')\n", "", rule='R13.2')
M('C13', 'item split on every colon', 'function.py', "        arg, new = item.split(':', 1) if isinstance(item, str) else item", "        arg, new = item.split(':') if isinstance(item, str) else item", rule='R13.2')
M('C13', 'dict spelling iterates keys', 'function.py', "d.items() if isinstance(d, dict) else d:", "d if isinstance(d, dict) else d:", rule='R13.2')
M('C13', 'string replacement built with float dtype', 'function.py', "            new = Argument(new, arg.shape, arg.dtype)", "            new = Argument(new, arg.shape)", rule='R13.2')
M('C13', 'runtime shape test removed from Argument._compile', 'evaluable.py', "        block.if_(_pyast.BinOp(shape, '!=', out.get_attr('shape'))).raise_(", "        block.if_(_pyast.LiteralBool(False) if hasattr(_pyast, 'LiteralBool') else _pyast.Variable('False')).raise_(", rule='R13.3')
M('C13', 'substitution without dtype comparison', 'evaluable.py', "        assert value.dtype == v.dtype, (value.dtype, v.dtype)\n        return v", "        return v", rule='R13.3')
M('C13', 'derivative accepts unknown names', 'function.py', "        if __var not in arg.arguments:\n            raise ValueError('no such argument: {}'.format(__var))\n", "", expect='fire')
M('C13', '_Replace.lower substitutes with point axes', 'function.py', "replacements = {name: value.lower(args.without_points) for name, value in self._replacements.items()}",
  "replacements = {name: value.lower(args) for name, value in self._replacements.items()}", rule='R13.5')
M('C13', 'benign: reorder shape and dtype guards', 'function.py',
  "            if new.shape != arg.shape:\n                raise ValueError(f'Argument {arg.name!r} has shape {arg.shape} but the replacement has shape {new.shape}.')\n            elif new.dtype != arg.dtype:\n                raise ValueError(f'Argument {arg.name!r} has dtype {arg.dtype.__name__} but the replacement has dtype {new.dtype.__name__}.')",
  "            if new.dtype != arg.dtype:\n                raise ValueError(f'Argument {arg.name!r} has dtype {arg.dtype.__name__} but the replacement has dtype {new.dtype.__name__}.')\n            if new.shape != arg.shape:\n                raise ValueError(f'Argument {arg.name!r} has shape {arg.shape} but the replacement has shape {new.shape}.')", expect='silent')
M('C13', 'benign: membership spelled positively', 'function.py', "            if arg not in array.arguments:\n                continue\n            arg = Argument(arg, *array.arguments[arg])",
  "            if not (arg in array.arguments):\n                continue\n            arg = Argument(arg, *array.arguments[arg])", expect='silent')

# ---------------------------------------------------------------- C17
M('C17', 'dict branch iterates unsorted', 'types.py', "        for item in sorted(nutils_hash(k) + nutils_hash(v) for k, v in data.items()):\n            h.update(item)",
  "        for k, v in data.items():\n            h.update(nutils_hash(k) + nutils_hash(v))", rule='R17.1')
M('C17', 'set branch iterates unsorted', 'types.py', "        for item in sorted(map(nutils_hash, data)):\n            h.update(item)", "        for item in map(nutils_hash, data):\n            h.update(item)", rule='R17.1')
M('C17', 'hash() of the value fed', 'types.py', "    elif t is bytes:\n        h.update(hashlib.sha1(data).digest())", "    elif t is bytes:\n        h.update(str(hash(data)).encode())", rule='R17.1')
M('C17', 'type tag loses its terminator', 'types.py', "    h = hashlib.sha1(t.__name__.encode()+b'\\0')", "    h = hashlib.sha1(t.__name__.encode())", rule='R17.2')
M('C17', 'str branch feeds raw text', 'types.py', "    elif t is str:\n        h.update(hashlib.sha1(data.encode()).digest())", "    elif t is str:\n        h.update(data.encode())", expect='silent')  # a single raw tail after the terminated tag is still prefix-free
M('C17', 'list items fed raw (boundary ambiguity)', 'types.py', "        for item in data:\n            h.update(nutils_hash(item))", "        for item in data:\n            h.update(repr(item).encode())", rule='R17.2')
M('C17', 'ndarray header without terminator', 'types.py', "        h.update('{}{}\\0'.format(','.join(map(str, data.shape)), data.dtype.str).encode())", "        h.update('{}{}'.format(','.join(map(str, data.shape)), data.dtype.str).encode())", rule='R17.2')
M('C17', 'ndarray header without dtype', 'types.py', "        h.update('{}{}\\0'.format(','.join(map(str, data.shape)), data.dtype.str).encode())", "        h.update('{}\\0'.format(','.join(map(str, data.shape))).encode())", rule='R17.5')
M('C17', 'method hash ignores the method name', 'types.py', "        h.update(nutils_hash(data.__self__))\n        h.update(nutils_hash(data.__name__))", "        h.update(nutils_hash(data.__self__))", rule='R17.5')
M('C17', 'unknown types hashed by tag only', 'types.py', "    else:\n        raise TypeError('unhashable type: {!r} {!r}'.format(data, t))\n    return h.digest()", "    else:\n        pass\n    return h.digest()", rule='R17.5')
M('C17', 'numpy scalars normalised after the tag', 'types.py',
  "    t = type(data)\n    h = hashlib.sha1(t.__name__.encode()+b'\\0')",
  "    t = type(data)\n    if isinstance(data, numpy.generic):\n        data = data.item()\n    h = hashlib.sha1(t.__name__.encode()+b'\\0')", rule='R17.5')
M('C17', 'LinesearchNewton hash drops relax0', 'solver.py', "('LinesearchNewton', self.strategy, self.failrelax, self.relax0, self.linargs)", "('LinesearchNewton', self.strategy, self.failrelax, self.linargs)", rule='R17.3')
M('C17', 'ReuseNewton reuses the Newton tag', 'solver.py', "('ReuseNewton', self.require, self.linargs)", "('Newton', self.require, self.linargs)", rule='R17.3')
M('C17', 'System hash ignores the trials', 'solver.py', "('System', self.trials, self.__value if self.is_symmetric else self.__block_residual)", "('System', self.__value if self.is_symmetric else self.__block_residual)", rule='R17.3')
M('C17', 'Immutable kwargs not sorted', 'types.py', "        return cls._new(*args[1:], tuple(sorted(kwargs.items())))", "        return cls._new(*args[1:], tuple(kwargs.items()))", rule='R17.4')
M('C17', 'DataClass interning: lookup before defaults', 'types.py',
  "        bound.apply_defaults()\n        if (self := cls.__cache.get(bound.args)) is None:", "        if (self := cls.__cache.get(bound.args)) is None:\n            bound.apply_defaults()", rule='R17.4')
M('C17', 'DataClass interning: store under kwargs-sensitive key', 'types.py', "            cls.__cache[bound.args] = self", "            cls.__cache[args] = self", rule='R17.4')
M('C17', 'arraydata lossless check dropped', 'types.py',
  "        if array.dtype != orig.dtype and not numpy.equal(array, orig).all():\n            raise ValueError('cannot cast array with dtype {orig.dtype} to native dtype {array.dtype} without truncation')\n", "", rule='R17.4')
M('C17', 'arraydata maps unsigned to float', 'types.py', "dict(b=bool, u=int, i=int, f=float, c=complex)[orig.dtype.kind]", "dict(b=bool, u=float, i=int, f=float, c=complex)[orig.dtype.kind]", rule='R17.4')
M('C17', 'cache key ignores keyword names', 'cache.py', "sorted(hashlib.sha1(k.encode()).digest()+types.nutils_hash(v) for k, v in kwargs.items())", "sorted(types.nutils_hash(v) for k, v in kwargs.items())", rule='R17.6')
M('C17', 'constants named by a truncated hash', 'evaluable.py', "types.nutils_hash(value).hex()))", "types.nutils_hash(value).hex()[:8]))", rule='R17.6')
M('C17', 'frozendict hash unsorted', 'types.py', "        for item in sorted(nutils_hash(k)+nutils_hash(v) for k, v in self.items()):\n            h.update(item)\n        return h.digest()\n\n    def __reduce__",
  "        for k, v in self.items():\n            h.update(nutils_hash(k)+nutils_hash(v))\n        return h.digest()\n\n    def __reduce__", rule='R17.1')
M('C17', 'benign: fix F6 with a terminator', 'types.py', "        h.update(str(pos).encode())", "        h.update(str(pos).encode() + b'\\0')", expect='silent')
M('C17', 'benign: tag built with an f-string', 'types.py', "    h = hashlib.sha1(t.__name__.encode()+b'\\0')", "    h = hashlib.sha1(f'{t.__name__}\\0'.encode())", expect='silent')
M('C17', 'benign: reorder LinesearchNewton tuple fields', 'solver.py', "('LinesearchNewton', self.strategy, self.failrelax, self.relax0, self.linargs)", "('LinesearchNewton', self.relax0, self.strategy, self.failrelax, self.linargs)", expect='silent')

# ---------------------------------------------------------------- C18
M('C18', 'delete f.seek(0) in cache.function', 'cache.py', "            # Seek back to the beginning, because pickle might have read garbage.\n            f.seek(0)\n", "", rule='R18.3')
M('C18', 'drop EOFError from the handler', 'cache.py', "            except (EOFError, pickle.UnpicklingError, IndexError):", "            except (pickle.UnpicklingError, IndexError):", rule='R18.2')
M('C18', 'drop UnpicklingError from the handler', 'cache.py', "            except (EOFError, pickle.UnpicklingError, IndexError):", "            except (EOFError, IndexError):", rule='R18.2')
M('C18', 'lock taken after the load', 'cache.py',
  "            _lock_file(f)\n            log.debug('[cache.function {}] lock acquired'.format(hkey))\n            try:\n                data = pickle.load(f)",
  "            log.debug('[cache.function {}] lock acquired'.format(hkey))\n            try:\n                data = pickle.load(f)\n                _lock_file(f)", rule='R18.1')
M('C18', 'file opened w+b', 'cache.py', "        with cachefile.open('r+b') as f:\n            log.debug('[cache.function {}] acquiring lock'.format(hkey))", "        with cachefile.open('w+b') as f:\n            log.debug('[cache.function {}] acquiring lock'.format(hkey))", rule='R18.1')
M('C18', 'func called outside disable()', 'cache.py', "            with disable(), log.add(log_):\n                value = func(*args, **kwargs)", "            with log.add(log_):\n                value = func(*args, **kwargs)", rule='R18.5')
M('C18', 'log not recorded', 'cache.py', "            with disable(), log.add(log_):\n                value = func(*args, **kwargs)", "            with disable():\n                value = func(*args, **kwargs)", rule='R18.5')
M('C18', 'hit returned without replay', 'cache.py', "                log_.replay()\n                return value", "                return value", rule='R18.5')
M('C18', 'kwargs omitted from the key', 'cache.py',
  "        for hkv in sorted(hashlib.sha1(k.encode()).digest()+types.nutils_hash(v) for k, v in kwargs.items()):\n            h.update(hkv)\n", "", rule='R18.4')
M('C18', 'version omitted from the key', 'cache.py', "'{}.{}:{}'.format(func.__module__, func.__qualname__, version)", "'{}.{}'.format(func.__module__, func.__qualname__)", rule='R18.4')
M('C18', 'exception of func swallowed and None stored', 'cache.py', "            with disable(), log.add(log_):\n                value = func(*args, **kwargs)\n            pickle.dump((value, log_), f)",
  "            with disable(), log.add(log_):\n                try:\n                    value = func(*args, **kwargs)\n                except Exception:\n                    value = None\n            pickle.dump((value, log_), f)", rule='R18.5')
M('C18', 'computation moved out of the locked region', 'cache.py',
  "            # Seek back to the beginning, because pickle might have read garbage.\n            f.seek(0)\n            # Disable the cache temporarily to prevent caching subresults *in* `func`.\n            log_ = log.RecordLog()\n            with disable(), log.add(log_):\n                value = func(*args, **kwargs)\n            pickle.dump((value, log_), f)\n            log.debug('[cache.function {}] store'.format(hkey))\n            return value",
  "            pass\n        log_ = log.RecordLog()\n        with disable(), log.add(log_):\n            value = func(*args, **kwargs)\n        with cachefile.open('r+b') as f:\n            f.seek(0)\n            pickle.dump((value, log_), f)\n            log.debug('[cache.function {}] store'.format(hkey))\n            return value", rule='R18.1')
M('C18', 'fallback lock preferred', 'cache.py', "[_lock_file_fcntl, _lock_file_msvcrt, _lock_file_fallback]", "[_lock_file_fallback, _lock_file_fcntl, _lock_file_msvcrt]", rule='R18.1')
M('C18', 'shared instead of exclusive flock', 'cache.py', "fcntl.flock(f, fcntl.LOCK_EX)", "fcntl.flock(f, fcntl.LOCK_SH)", rule='R18.1')
M('C18', 'Recursion: seek(0) dropped', 'cache.py', "                            resume = self.resume_index(history, i)\n                            f.seek(0)\n", "                            resume = self.resume_index(history, i)\n", rule='R18.3')
M('C18', 'Recursion: EOFError not handled', 'cache.py',
  "                        except EOFError:\n                            log.debug('[cache.Recursion {}.{:04d}] cache exhausted'.format(hkey, i))\n                            exhausted = True\n", "", rule='R18.2')
M('C18', 'Recursion: exhausted reset after a store', 'cache.py', "                        pickle.dump((log_, stop, value), f)\n", "                        pickle.dump((log_, stop, value), f)\n                        exhausted = False\n", rule='R18.6')
M('C18', 'Recursion: history not trimmed', 'cache.py', "                            if len(history) > length:\n                                history = history[1:]\n", "", rule='R18.6')
M('C18', 'Recursion: resume from index 0', 'cache.py', "resume = self.resume_index(history, i)", "resume = self.resume_index(history, 0)", rule='R18.6')
M('C18', 'Recursion: stop marker ignored', 'cache.py', "                if stop:\n                    return\n                yield value", "                yield value", rule='R18.6')
M('C18', 'Recursion: computation outside disable()', 'cache.py', "                        with disable(), log.add(log_):\n                            try:\n                                value = next(resume)",
  "                        with log.add(log_):\n                            try:\n                                value = next(resume)", rule='R18.5')
M('C18', 'Recursion: entry layout disagreement', 'cache.py', "                        pickle.dump((log_, stop, value), f)", "                        pickle.dump((log_, value, stop), f)", rule='R18.6')
M('C18', 'benign: load+handler rewritten with flag', 'cache.py',
  "            else:\n                log.debug('[cache.function {}] load'.format(hkey))\n                log_.replay()\n                return value\n",
  "            else:\n                log.debug('[cache.function {}] load'.format(hkey))\n                log_.replay()\n                hit = value\n                return hit\n", expect='silent')
M('C18', 'benign: f.seek(0, 0)', 'cache.py', "            # Seek back to the beginning, because pickle might have read garbage.\n            f.seek(0)\n", "            f.seek(0, 0)\n", expect='silent')
M('C18', 'benign: handler tuple reordered', 'cache.py', "            except (EOFError, pickle.UnpicklingError, IndexError):", "            except (IndexError, pickle.UnpicklingError, EOFError):", expect='silent')

# ---------------------------------------------------------------- C20
M('C20', 'revert F10: curvature handler passes wrapped args', 'SI.py', "        return (dim0**-1).wrap(op(arg0, *args[1:], **kwargs))", "        return (dim0**-1).wrap(op(*args, **kwargs))", rule='R20.6')
M('C20', 'hypot registered as mul-like', 'SI.py', "    @register(numpy.hypot)\n", "", expect='silent')  # removing a registration only makes the op unsupported
M('C20', 'hypot moved to the product rule', 'SI.py', "    @register(numpy.matmul)\n    @register(numpy.multiply)", "    @register(numpy.hypot)\n    @register(numpy.matmul)\n    @register(numpy.multiply)", rule='R20.1')
M('C20', 'add-like loses its dimension guard', 'SI.py',
  "        (dim0, arg0), (dim1, arg1) = Quantity.__unpack(args[0], args[1])\n        if dim0 != dim1:\n            raise DimensionError(f'incompatible arguments for {op.__name__}: {dim0.__name__}, {dim1.__name__}')\n        return dim0.wrap(op(arg0, arg1, *args[2:], **kwargs))",
  "        (dim0, arg0), (dim1, arg1) = Quantity.__unpack(args[0], args[1])\n        return dim0.wrap(op(arg0, arg1, *args[2:], **kwargs))", rule='R20.1')
M('C20', 'comparison loses its dimension guard', 'SI.py',
  "        if dim0 != dim1:\n            raise DimensionError(f'incompatible arguments for {op.__name__}: {dim0.__name__}, {dim1.__name__}')\n        return op(arg0, arg1, *args[2:], **kwargs)",
  "        return op(arg0, arg1, *args[2:], **kwargs)", rule='R20.1')
M('C20', 'division handler multiplies dimensions', 'SI.py', "        return (dim0 / dim1).wrap(op(arg0, arg1, *args[2:], **kwargs))", "        return (dim0 * dim1).wrap(op(arg0, arg1, *args[2:], **kwargs))", rule='R20.1')
M('C20', 'laplace divides once', 'SI.py', "        return (dim0 / dim1**2).wrap(op(arg0, arg1, *args[2:], **kwargs))", "        return (dim0 / dim1).wrap(op(arg0, arg1, *args[2:], **kwargs))", rule='R20.1')
M('C20', 'sqrt keeps the dimension', 'SI.py', "        return (dim0**fractions.Fraction(1,2)).wrap(op(arg0, *args[1:], **kwargs))", "        return dim0.wrap(op(arg0, *args[1:], **kwargs))", rule='R20.1')
M('C20', 'sqrt uses a third', 'SI.py', "dim0**fractions.Fraction(1,2)", "dim0**fractions.Fraction(1,3)", rule='R20.1')
M('C20', 'grad registered as dimension preserving', 'SI.py', "    @register(function.curl)\n    @register(function.div)\n    @register(function.grad)", "    @register(function.curl)\n    @register(function.div)", expect='silent')
M('C20', 'grad moved to the unary rule', 'SI.py', "    @register(function.derivative)\n", "    @register(function.derivative)\n    @register(function.grad)\n", rule='R20.1')
M('C20', 'stack does not compare dimensions', 'SI.py',
  "        if any(dim != dims[0] for dim in dims[1:]):\n            raise DimensionError(f'incompatible arguments for {op.__name__}: ' + ', '.join(dim.__name__ for dim in dims))\n", "", rule='R20.1')
M('C20', 'setitem compares the index dimension', 'SI.py', "(dim0, arg0), (dim2, arg2) = Quantity.__unpack(args[0], args[2])", "(dim0, arg0), (dim2, arg2) = Quantity.__unpack(args[0], args[1])", expect='fire')
M('C20', 'interp returns the dimension of x', 'SI.py', "        return dimfp.wrap(f)", "        return dimx.wrap(f)", rule='R20.1')
M('C20', 'isnan registered as dimension preserving', 'SI.py', "    @register(numpy.isfinite)\n    @register(numpy.isnan)", "    @register(numpy.isfinite)", expect='silent')
M('C20', '__rsub__ without _reverse', 'SI.py', "__rsub__ = partialmethod(_try_or_noimp, _reverse, __DISPATCH_TABLE[operator.sub])", "__rsub__ = partialmethod(_try_or_noimp, __DISPATCH_TABLE[operator.sub])", rule='R20.3')
M('C20', '__rtruediv__ without _reverse', 'SI.py', "__rtruediv__ = partialmethod(_try_or_noimp, _reverse,__DISPATCH_TABLE[operator.truediv])", "__rtruediv__ = partialmethod(_try_or_noimp, __DISPATCH_TABLE[operator.truediv])", rule='R20.3')
M('C20', '__mod__ bound to mul', 'SI.py', "__mod__ = partialmethod(_try_or_noimp, __DISPATCH_TABLE[operator.mod])", "__mod__ = partialmethod(_try_or_noimp, __DISPATCH_TABLE[operator.mul])", rule='R20.3')
M('C20', '_reverse does not swap', 'SI.py', "def _reverse(self, func, arg):\n    return func(arg, self)", "def _reverse(self, func, arg):\n    return func(self, arg)", rule='R20.3')
M('C20', 'Dimension.__truediv__ adds exponents', 'SI.py', "        return cls._binop(operator.sub, cls.__powers, other.__powers)", "        return cls._binop(operator.add, cls.__powers, other.__powers)", rule='R20.4')
M('C20', 'zero powers kept', 'SI.py', "        powers = {base: power for base, power in arg.items() if power}", "        powers = {base: power for base, power in arg.items()}", rule='R20.4')
M('C20', 'Dimension.__call__ skips the type check', 'SI.py', "        if type(q) != expect:\n            raise DimensionError(f'expected {expect.__name__}, got {type(q).__name__}')\n", "", rule='R20.4')
M('C20', 'milli is 1e-6 in SI.Units', 'SI.py', "d=1e-1, c=1e-2, m=1e-3, μ=1e-6, n=1e-9, p=1e-12, f=1e-15, a=1e-18, z=1e-21, y=1e-24)\n\n    def __setattr__", "d=1e-1, c=1e-2, m=1e-6, μ=1e-6, n=1e-9, p=1e-12, f=1e-15, a=1e-18, z=1e-21, y=1e-24)\n\n    def __setattr__", rule='R20.5')
M('C20', 'peta/exa swapped in unit.py', 'unit.py', "E=1e18, P=1e15", "E=1e15, P=1e18", rule='R20.5')
M('C20', 'prefix collisions not rejected', 'SI.py', "        if collisions:\n            raise ValueError(f'cannot define {name!r}: unit collides with ' + ', '.join(collisions))\n", "", rule='R20.8')
M('C20', 'format parses the unit unchecked', 'SI.py', "        v = self / type(self)(format_spec[n:])", "        v = self.__value / parse(format_spec[n:]).__value", expect='fire')
M('C20', 'benign: reorder decorators', 'SI.py', "    @register(numpy.add)\n    @register(numpy.hypot)", "    @register(numpy.hypot)\n    @register(numpy.add)", expect='silent')
M('C20', 'benign: guard written with ==', 'SI.py', "        (dim0, arg0), (dim2, arg2) = Quantity.__unpack(args[0], args[2])\n        if dim0 != dim2:", "        (dim0, arg0), (dim2, arg2) = Quantity.__unpack(args[0], args[2])\n        if dim2 != dim0:", expect='silent')
M('C20', 'benign: result written as dim0 * dim1**-1', 'SI.py', "        return (dim0 / dim1).wrap(op(arg0, arg1, *args[2:], **kwargs))", "        return (dim0 * dim1**-1).wrap(op(arg0, arg1, *args[2:], **kwargs))", expect='silent')

# ---------------------------------------------------------------- C16
M('C16', 'counter store moved out of the lock', 'parallel.py',
  "            if iiter >= self._stop:\n                raise StopIteration\n            self._index.value = iiter + 1\n        return iiter",
  "            if iiter >= self._stop:\n                raise StopIteration\n        self._index.value = iiter + 1\n        return iiter", rule='R16.1')
M('C16', 'counter read before taking the lock', 'parallel.py',
  "        with self._lock:\n            iiter = self._index.value  # claim next value\n", "        iiter = self._index.value  # claim next value\n        with self._lock:\n", rule='R16.1')
M('C16', 'off-by-one in the exhaustion test', 'parallel.py', "            if iiter >= self._stop:", "            if iiter > self._stop:", rule='R16.1')
M('C16', 'range created inside the fork', 'parallel.py',
  "    rng = range(nitems)  # shared range, must be created pre-fork\n    with fork(nitems), treelog.iter.wrap(_pct(name, nitems), rng) as wrprng:\n        yield wrprng",
  "    with fork(nitems):\n        rng = range(nitems)\n        with treelog.iter.wrap(_pct(name, nitems), rng) as wrprng:\n            yield wrprng", rule='R16.1')
M('C16', 'child returns instead of exiting on success', 'parallel.py', "        if amchild:  # pragma: no cover\n            os._exit(0)  # communicate success to main process\n", "        if amchild:  # pragma: no cover\n            return\n", rule='R16.2')  # the failsafe then exits 1: a successful parallel run raises
M('C16', 'failsafe exit removed and child falls through', 'parallel.py',
  "        if amchild:  # pragma: no cover\n            os._exit(0)  # communicate success to main process\n", "", rule='R16.2')
M('C16', 'child can escape: no success exit and no failsafe', 'parallel.py',
  "    finally:\n        if amchild:  # pragma: no cover\n            os._exit(1)  # failsafe\n", "    finally:\n        pass\n", expect='silent')  # success and failure branches still exit explicitly
M('C16', 'failing child exits 0', 'parallel.py', "                os._exit(1)  # communicate failure to main process", "                os._exit(0)  # communicate failure to main process", rule='R16.2')
M('C16', 'child exits are all removed from the handler', 'parallel.py',
  "            try:\n                print('[parallel.fork] exception in child process:', e)\n            finally:\n                os._exit(1)  # communicate failure to main process\n",
  "            print('[parallel.fork] exception in child process:', e)\n", expect='silent')  # child then kills nothing (child_pids empty for it?) - it re-raises and the finally failsafe exits 1
M('C16', 'parent does not kill children on failure', 'parallel.py', "        for pid in child_pids:  # kill all child processes\n            os.kill(pid, signal.SIGKILL)\n        raise", "        raise", rule='R16.2')
M('C16', 'parent swallows the failure', 'parallel.py', "        for pid in child_pids:  # kill all child processes\n            os.kill(pid, signal.SIGKILL)\n        raise",
  "        for pid in child_pids:  # kill all child processes\n            os.kill(pid, signal.SIGKILL)", rule='R16.2')
M('C16', 'parent does not wait', 'parallel.py',
  "        with treelog.context('waiting for child processes'):\n            nfails = sum(not _wait(pid) for pid in child_pids)\n        if nfails:  # failure in child process: raise exception\n            raise Exception('fork failed in {} out of {} processes'.format(nfails, nprocs))\n",
  "        pass\n", rule='R16.2')
M('C16', 'failed children only logged', 'parallel.py',
  "        if nfails:  # failure in child process: raise exception\n            raise Exception('fork failed in {} out of {} processes'.format(nfails, nprocs))\n",
  "        if nfails:  # failure in child process\n            treelog.error('fork failed in {} out of {} processes'.format(nfails, nprocs))\n", rule='R16.2')
M('C16', '_wait True for signalled children', 'parallel.py', "    elif os.WIFSIGNALED(status):\n        s = os.WTERMSIG(status)\n        msg =", "    elif os.WIFSIGNALED(status):\n        return True\n        s = os.WTERMSIG(status)\n        msg =", rule='R16.2')
M('C16', '_wait ignores the exit status', 'parallel.py', "        s = os.WEXITSTATUS(status)\n        if not s:\n            return True", "        s = os.WEXITSTATUS(status)\n        return True", rule='R16.2')
M('C16', 'pid not recorded', 'parallel.py', "            child_pids.append(pid)\n", "", rule='R16.2')
M('C16', 'exec appends to the raw block', 'evaluable.py', "        self._block_for(expression).append(_pyast.Exec(expression))", "        self._block.append(_pyast.Exec(expression))", rule='R16.3')
M('C16', 'assign_to ignores the sliced lhs', 'evaluable.py', "            block = self._block_for(lhs, rhs)", "            block = self._block_for(rhs)", rule='R16.3')
M('C16', 'raise_ appends to the raw block', 'evaluable.py', "        self._block_for(exception).append(_pyast.Raise(exception))", "        self._block.append(_pyast.Raise(exception))", rule='R16.3')
M('C16', 'if_ does not pre-evaluate a locked condition', 'evaluable.py',
  "        if self._needs_lock(condition):\n", "        if False and self._needs_lock(condition):\n", rule='R16.3')
M('C16', '_iter_locks ignores keyword arguments', 'evaluable.py', "for args_ in (args, kwargs.values()) for arg in args_ for var in arg.variables", "for args_ in (args,) for arg in args_ for var in arg.variables", rule='R16.3')
M('C16', 'array_add_at bypasses exec', 'evaluable.py', "        self.exec(_pyast.Variable('numpy').get_attr('add').get_attr('at').call(out, indices, values))",
  "        self._block.append(_pyast.Exec(_pyast.Variable('numpy').get_attr('add').get_attr('at').call(out, indices, values)))", rule='R16.3')
M('C16', 'shared array not registered', 'evaluable.py', "            self._shared_arrays[out] = lock\n", "", rule='R16.4')
M('C16', 'lock created inside the allocation block', 'evaluable.py', "            self._blocks[0,].append(_pyast.Assign(lock,", "            self._blocks[alloc_block_id].append(_pyast.Assign(lock,", rule='R16.4')
M('C16', 'shared branch allocates privately', 'evaluable.py', "            py_alloc = _pyast.Variable('parallel').get_attr('shempty')", "            py_alloc = _pyast.Variable('numpy').get_attr('empty')", rule='R16.4')
M('C16', 'ctxrange for every loop depth', 'evaluable.py', "        if len(loop_id) == 1 and compile_parallel:", "        if compile_parallel:", rule='R16.4')
M('C16', 'ielems allocated privately in _locate', 'topology.py', "        ielems = parallel.shempty(len(coords), dtype=int)", "        ielems = numpy.empty(len(coords), dtype=int)", rule='R16.5')
M('C16', 'missing point leaves its slot unassigned', 'topology.py', "                    ielems[ipoint] = -1 # mark point as missing\n                    if not skip_missing:", "                    if not skip_missing:", rule='R16.5')
M('C16', 'compile emits an unlocked statement directly', 'evaluable.py', "        alloc_block.assign_to(out, py_alloc.call(shape, dtype=array.ast_dtype))",
  "        self._blocks[alloc_block_id].append(_pyast.Exec(py_alloc.call(shape, dtype=array.ast_dtype)))\n        alloc_block.assign_to(out, py_alloc.call(shape, dtype=array.ast_dtype))", rule='R16.3')
M('C16', 'benign: rename lock variable', 'evaluable.py',
  "        for lock in self._iter_locks(*args, **kwargs):\n            with_block = _pyast.Block()\n            block.append(_pyast.With(lock, with_block))",
  "        for lock in self._iter_locks(*args, **kwargs):\n            with_block = _pyast.Block()\n            block.append(_pyast.With(lock, body=with_block))", expect='silent')
M('C16', 'benign: reorder independent statements in shared branch', 'evaluable.py',
  "            lock = self.get_lock_for_evaluable(array)\n            self._shared_arrays[out] = lock\n            self._blocks[0,].append(_pyast.Assign(lock, _pyast.Variable('multiprocessing').get_attr('Lock').call()))\n            py_alloc = _pyast.Variable('parallel').get_attr('shempty')",
  "            lock = self.get_lock_for_evaluable(array)\n            py_alloc = _pyast.Variable('parallel').get_attr('shempty')\n            self._blocks[0,].append(_pyast.Assign(lock, _pyast.Variable('multiprocessing').get_attr('Lock').call()))\n            self._shared_arrays[out] = lock", expect='silent')
M('C16', 'benign: exhaustion test mirrored', 'parallel.py', "            if iiter >= self._stop:", "            if self._stop <= iiter:", expect='silent')

# ---------------------------------------------------------------- C19
M('C19', 'raise ValueError in _Parser', 'expression_v2.py', "            raise ExpressionSyntaxError('Repeated fractions are not allowed. Use parentheses if necessary.', s.trim())", "            raise ValueError('Repeated fractions are not allowed. Use parentheses if necessary.')", rule='R19.1')
M('C19', 'unguarded int() of user text', 'expression_v2.py',
  "    def parse_signed_int(self, s: _Substring) -> Tuple[T, _Shape, str, FrozenSet[str]]:\n        try:\n            value = int(str(s.trim()))\n        except ValueError:\n            raise ExpressionSyntaxError('Expected an int.', s.trim() or s) from None\n",
  "    def parse_signed_int(self, s: _Substring) -> Tuple[T, _Shape, str, FrozenSet[str]]:\n        value = int(str(s.trim()))\n", rule='R19.1')
M('C19', 'delete _verify_indices_summed in parse_power', 'expression_v2.py',
  "        summed_indices = self._merge_summed_indices_same_term(s.trim(), base_summed_indices, exponent_summed_indices)\n        self._verify_indices_summed(s.trim(), indices, summed_indices)\n        return self.array.power(base, exponent), shape, indices, summed_indices",
  "        summed_indices = self._merge_summed_indices_same_term(s.trim(), base_summed_indices, exponent_summed_indices)\n        return self.array.power(base, exponent), shape, indices, summed_indices", rule='R19.2')
M('C19', 'denominator dimension test dropped', 'expression_v2.py', "        if denominator_indices:\n            raise ExpressionSyntaxError('The denominator must have dimension zero.', s_parts[1].trim())\n", "", rule='R19.2')
M('C19', 'fraction merges with union instead of checked merge', 'expression_v2.py',
  "        summed_indices = self._merge_summed_indices_same_term(s.trim(), numerator_summed_indices, denominator_summed_indices)\n        self._verify_indices_summed(s.trim(), indices, summed_indices)\n        return self.array.divide(",
  "        summed_indices = numerator_summed_indices | denominator_summed_indices\n        self._verify_indices_summed(s.trim(), indices, summed_indices)\n        return self.array.divide(", rule='R19.2')
M('C19', 'one direction of the index-set test dropped', 'expression_v2.py',
  "                for index in sorted(set(term_indices) - set(indices)):\n                    raise ExpressionSyntaxError('Index {} of the {} term [~] is missing in the first term [^].'.format(index, _nth(iterm)), caret=s_first.trim(), tilde=s_term.trim())\n", "", rule='R19.2')
M('C19', 'length test between terms dropped', 'expression_v2.py',
  "            for n, m, index in zip(shape, term_shape, indices):\n                if n != m:\n                    raise ExpressionSyntaxError('Index {} has length {} in the first term [^] but length {} in the {} term [~].'.format(index, n, m, _nth(iterm)), caret=s_first.trim(), tilde=s_term.trim())\n", "", rule='R19.2')
M('C19', 'trace no longer tests more-than-twice', 'expression_v2.py',
  "            if index in summed_indices:\n                raise ExpressionSyntaxError('Index {} occurs more than twice.'.format(index), s)\n            elif i < j:", "            if i < j:", rule='R19.2')
M('C19', 'trace length test dropped', 'expression_v2.py',
  "                if shape[i] != shape[j]:\n                    raise ExpressionSyntaxError('Index {} is assigned to axes with different lengths: {} and {}.'.format(index, shape[i], shape[j]), s)\n", "", rule='R19.2')
M('C19', 'numeral range test off by one', 'expression_v2.py', "                    if index >= shape[axis]:", "                    if index > shape[axis]:", rule='R19.2')
M('C19', 'symbols after scope accepted', 'expression_v2.py', "        if s_tail:\n            raise ExpressionSyntaxError('Unexpected symbols after scope.', s_tail)\n", "", rule='R19.2')
M('C19', 'summed indices of later terms dropped', 'expression_v2.py', "            summed_indices |= term_summed_indices\n", "", rule='R19.2')
M('C19', 'swap mean and jump brackets', 'expression_v2.py', "{'(': self.array.scope, '{': self.array.mean, '[': self.array.jump}", "{'(': self.array.scope, '{': self.array.jump, '[': self.array.mean}", rule='R19.3')
M('C19', 'ops.mean calls jump', 'expression_v2.py', "    def mean(self, array: function.Array) -> function.Array:\n        return function.mean(array)", "    def mean(self, array: function.Array) -> function.Array:\n        return function.jump(array)", rule='R19.3')
M('C19', 'ln bound to log10', 'expression_v2.py', "        self.ln = numpy.log\n", "        self.ln = numpy.log10\n", rule='R19.3')
M('C19', 'arcsin bound to arccos', 'expression_v2.py', "        self.arcsin = numpy.arcsin", "        self.arcsin = numpy.arccos", rule='R19.3')
M('C19', 'align transposes in the wrong direction', 'expression_v2.py', "        return self.transpose(array, tuple(map(in_indices.index, out_indices)))", "        return self.transpose(array, tuple(map(out_indices.index, in_indices)))", rule='R19.3')
M('C19', 'divide is floor division', 'expression_v2.py', "        return numpy.true_divide(numerator, denominator)", "        return numpy.floor_divide(numerator, denominator)", rule='R19.3')
M('C19', 'v1: transpose outside the try in parse()', 'expression_v1.py',
  "        try:\n            ast = value.transpose(indices).ast\n        except _IntermediateError as e:\n            raise ExpressionSyntaxError(e.msg + '\\n' + expression + '\\n' + '^'*len(expression)) from e",
  "        ast = value.transpose(indices).ast", rule='R19.4')
M('C19', 'v1: tokenize loses @highlight', 'expression_v1.py', "    @highlight\n    def tokenize(self):", "    def tokenize(self):", rule='R19.4')
M('C19', 'v1: parse_subexpression loses @highlight', 'expression_v1.py', "    @highlight\n    def parse_subexpression(self, omitted_indices):", "    def parse_subexpression(self, omitted_indices):", rule='R19.4')
M('C19', 'v1: trace branch removed from _eval_ast', 'expression_v1.py', "    elif op == 'trace':\n        array, n1, n2 = args\n        return numpy.trace(array, axis1=n1, axis2=n2)\n", "", rule='R19.5')
M('C19', 'v1: jump evaluates mean', 'expression_v1.py', "    elif op == 'jump':\n        array, = args\n        return function.jump(array)", "    elif op == 'jump':\n        array, = args\n        return function.mean(array)", rule='R19.5')
M('C19', 'v1: surfgrad evaluates the full gradient', 'expression_v1.py', "        return function.grad(array, geom, len(geom)-1)", "        return function.grad(array, geom)", rule='R19.5')
M('C19', 'v1: sum opcode written with extra operand', 'expression_v1.py', "            ast = 'sum', ast, _(i)", "            ast = 'sum', ast, _(i), _(True)", rule='R19.5')
M('C19', 'v1: new opcode without reader', 'expression_v1.py', "        return self.replace(ast=('neg', self.ast))", "        return self.replace(ast=('negative', self.ast))", rule='R19.5')
M('C19', 'benign: rename locals in parse_fraction', 'expression_v2.py', "        if denominator_indices:\n            raise ExpressionSyntaxError('The denominator must have dimension zero.', s_parts[1].trim())", "        if len(denominator_indices) > 0 or denominator_indices:\n            raise ExpressionSyntaxError('The denominator must have dimension zero.', s_parts[1].trim())", expect='silent')
M('C19', 'benign: reorder elif branches of _eval_ast', 'expression_v1.py',
  "    elif op == 'jump':\n        array, = args\n        return function.jump(array)\n    elif op == 'mean':\n        array, = args\n        return function.mean(array)",
  "    elif op == 'mean':\n        array, = args\n        return function.mean(array)\n    elif op == 'jump':\n        array, = args\n        return function.jump(array)", expect='silent')
M('C19', 'benign: inner method loses @highlight (still converted by the caller)', 'expression_v1.py', "    @highlight\n    def parse_term(self, omitted_indices):", "    def parse_term(self, omitted_indices):", expect='silent')

# ---------------------------------------------------------------- C01
M('C01', 'revert F5: Choose._takediag via public takediag', 'evaluable.py',
  "        return Choose(_takediag(self.index, axis, rmaxis), Transpose.to_end(_takediag(self.choices, axis, rmaxis), -2))",
  "        return Choose(takediag(self.index, axis, rmaxis), takediag(self.choices, axis, rmaxis))", rule='R01.2')
M('C01', 'Legendre._take through public take', 'evaluable.py', "            return Legendre(_take(self.x, index, axis), self.degree)", "            return Legendre(take(self.x, index, axis), self.degree)", rule='R01.2')
M('C01', 'extra parameter on InsertAxis._takediag', 'evaluable.py', "    def _takediag(self, axis1, axis2):\n        assert axis1 < axis2\n        if axis2 == self.ndim-1:\n            return Transpose.to_end(self.func, axis1)",
  "    def _takediag(self, axis1, axis2, keep):\n        assert axis1 < axis2\n        if axis2 == self.ndim-1:\n            return Transpose.to_end(self.func, axis1)", rule='R01.1')
M('C01', 'call site passes too few arguments', 'evaluable.py', "        trytakediag = self.func._takediag(orig1, orig2)", "        trytakediag = self.func._takediag(orig1)", rule='R01.1')
M('C01', 'protocol default gains a parameter', 'evaluable.py', "    _sum = lambda self, axis: None", "    _sum = lambda self, axis, keepdims: None", rule='R01.1')
M('C01', 'shape/dtype assertion of the driver removed', 'evaluable.py',
  "        if isinstance(obj, Array):\n            assert isinstance(retval, Array) and not _any_certainly_different(retval.shape, obj.shape) and retval.dtype == obj.dtype, '{} --simplify--> {}'.format(obj, retval)\n", "", rule='R01.4')
M('C01', 'driver assertion ignores dtype', 'evaluable.py', "not _any_certainly_different(retval.shape, obj.shape) and retval.dtype == obj.dtype, '{} --simplify--> {}'", "not _any_certainly_different(retval.shape, obj.shape), '{} --simplify--> {}'", rule='R01.4')
M('C01', 'loop detection removed', '_util.py', "                elif obj in ostack:\n                    raise Exception(f'{type(obj).__name__}.{self.name} is caught in a loop')\n", "", rule='R01.4')
M('C01', 'benign: rename axis parameters of a rule', 'evaluable.py', "    def _takediag(self, axis1, axis2):\n        return product(_takediag(self.func, axis1, axis2), self.ndim-2)", "    def _takediag(self, ax1, ax2):\n        return product(_takediag(self.func, ax1, ax2), self.ndim-2)", expect='silent')
M('C01', 'benign: constant-axis takediag stays', 'evaluable.py', "            return takediag(simple, -3, -2)", "            return takediag(simple, -3, -2)  # constants, not a pass-through", expect='silent')

# ---------------------------------------------------------------- C04
M('C04', 'ArcCos.deriv loses its minus', 'evaluable.py', "    deriv = lambda x: -reciprocal(sqrt(astype(1, x.dtype)-x**astype(2, x.dtype))),", "    deriv = lambda x: reciprocal(sqrt(astype(1, x.dtype)-x**astype(2, x.dtype))),\n    _arccos_marker = None", rule='R04.1')
M('C04', 'Tan.deriv exponent -2 -> 2', 'evaluable.py', "    deriv = lambda x: Cos(x)**astype(-2, x.dtype),", "    deriv = lambda x: Cos(x)**astype(2, x.dtype),", rule='R04.1')
M('C04', 'ArcTan.deriv uses 1 - x^2', 'evaluable.py', "    deriv = lambda x: reciprocal(astype(1, x.dtype)+x**astype(2, x.dtype)),", "    deriv = lambda x: reciprocal(astype(1, x.dtype)-x**astype(2, x.dtype)),\n    _arctan_marker = None", rule='R04.1')
M('C04', 'CosH.deriv = CosH', 'evaluable.py', "    deriv = lambda x: SinH(x),", "    deriv = lambda x: CosH(x),", rule='R04.1')
M('C04', 'ArcTan2 partials swapped', 'evaluable.py', "    deriv = lambda x, y: y / (x**astype(2, x.dtype) + y**astype(2, x.dtype)), lambda x, y: -x / (x**astype(2, x.dtype) + y**astype(2, x.dtype))",
  "    deriv = lambda x, y: -x / (x**astype(2, x.dtype) + y**astype(2, x.dtype)), lambda x, y: y / (x**astype(2, x.dtype) + y**astype(2, x.dtype))", rule='R04.1')
M('C04', 'Minimum partials swapped', 'evaluable.py', "    deriv = lambda x, y: .5 - .5 * Sign(x - y), lambda x, y: .5 + .5 * Sign(x - y)\n\n    def _compile_expression(self, x, y):\n        return _pyast.Variable('numpy').get_attr('minimum').call(x, y)",
  "    deriv = lambda x, y: .5 + .5 * Sign(x - y), lambda x, y: .5 - .5 * Sign(x - y)\n\n    def _compile_expression(self, x, y):\n        return _pyast.Variable('numpy').get_attr('minimum').call(x, y)", rule='R04.1')
M('C04', 'Sinc derivative keeps n', 'evaluable.py', "    deriv = lambda x, n: Sinc(x, n=n+1),", "    deriv = lambda x, n: Sinc(x, n=n),", rule='R04.1')
M('C04', 'Sin emits numpy.cos', 'evaluable.py', "        return _pyast.Variable('numpy').get_attr('sin').call(x)", "        return _pyast.Variable('numpy').get_attr('cos').call(x)", rule='R04.1')
M('C04', 'TanH.deriv = 1 + tanh^2', 'evaluable.py', "    deriv = lambda x: astype(1, x.dtype) - TanH(x)**astype(2, x.dtype),", "    deriv = lambda x: astype(1, x.dtype) + TanH(x)**astype(2, x.dtype),", rule='R04.1')
M('C04', 'Determinant einsum Aji -> Aij', 'evaluable.py', "        return einsum('A,Aji,AijB->AB', self, inverse(self.func), derivative(self.func, var, seen))", "        return einsum('A,Aij,AijB->AB', self, inverse(self.func), derivative(self.func, var, seen))", rule='R04.2')
M('C04', 'Inverse derivative loses its sign', 'evaluable.py', "        return -einsum('Aij,AjkB,Akl->AilB', self, derivative(self.func, var, seen), self)", "        return einsum('Aij,AjkB,Akl->AilB', self, derivative(self.func, var, seen), self)", rule='R04.2')
M('C04', 'Inverse derivative contracts the wrong index', 'evaluable.py', "'Aij,AjkB,Akl->AilB'", "'Aij,AjkB,Alk->AilB'", rule='R04.2')
M('C04', 'product rule differentiates the same factor twice', 'evaluable.py', "            + einsum('A,AB->AB', func2, derivative(func1, var, seen))", "            + einsum('A,AB->AB', func2, derivative(func2, var, seen))", rule='R04.2')
M('C04', 'Power: log term uses power instead of self', 'evaluable.py', "            + einsum('A,A,AB->AB', ln(self.func), self, derivative(self.power, var, seen))", "            + einsum('A,A,AB->AB', ln(self.func), self.power, derivative(self.power, var, seen))", rule='R04.2')
M('C04', 'Sum derivative sums the wrong axis', 'evaluable.py', "        return sum(derivative(self.func, var, seen), self.ndim)", "        return sum(derivative(self.func, var, seen), self.ndim-1)", rule='R04.4')
M('C04', 'TakeDiag derivative axes shifted', 'evaluable.py', "        return takediag(derivative(self.func, var, seen), self.ndim-1, self.ndim)", "        return takediag(derivative(self.func, var, seen), self.ndim-2, self.ndim-1)", rule='R04.4')
M('C04', 'WithDerivative returns stored derivative always', 'evaluable.py', "        if var == self.var:\n            return self.derivative\n        else:\n            return derivative(self.func, var, seen)", "        return self.derivative", rule='R04.3')
M('C04', 'driver memo dropped', 'evaluable.py', "        result = func._derivative(var, seen)\n        seen[func] = result", "        result = func._derivative(var, seen)", rule='R04.3')
M('C04', 'benign: reciprocal(x) <-> x**-1', 'evaluable.py', "    deriv = lambda x: reciprocal(x),", "    deriv = lambda x: x**astype(-1, x.dtype),", expect='silent')
M('C04', 'benign: rename einsum letters', 'evaluable.py', "        return -einsum('Aij,AjkB,Akl->AilB', self, derivative(self.func, var, seen), self)", "        return -einsum('Apq,AqrB,Ars->ApsB', self, derivative(self.func, var, seen), self)", expect='silent')
M('C04', 'benign: reorder einsum operands', 'evaluable.py', "        return einsum('A,Aji,AijB->AB', self, inverse(self.func), derivative(self.func, var, seen))", "        return einsum('Aji,A,AijB->AB', inverse(self.func), self, derivative(self.func, var, seen))", expect='silent')
M('C04', 'benign: axis written via func.ndim', 'evaluable.py', "        return sum(derivative(self.func, var, seen), self.ndim)", "        return sum(derivative(self.func, var, seen), self.func.ndim-1)", expect='silent')
M('C04', 'benign: tan derivative as 1 + tan^2', 'evaluable.py', "    deriv = lambda x: Cos(x)**astype(-2, x.dtype),", "    deriv = lambda x: astype(1, x.dtype) + Tan(x)**astype(2, x.dtype),", expect='silent')

# ---------------------------------------------------------------- C02 / C03 / C06
M('C02', 'Monomial multiplies a compiled dependency in place', 'evaluable.py', "        block.assign_to(out, _pyast.Variable('numpy').get_attr('array').call(values, copy=_pyast.LiteralBool(True)))", "        block.assign_to(out, _pyast.Variable('numpy').get_attr('asarray').call(values))", rule='R02.1')
M('C02', 'Monomial mutates the compiled values directly', 'evaluable.py', "            block.array_imul(out, arg.get_item(index))", "            block.array_imul(values, arg.get_item(index))", rule='R02.1')
M('C02', 'zero fill deleted in Inflate._compile_with_out', 'evaluable.py',
  "        if mode == 'assign':\n            builder.get_block_for_evaluable(self, block_id=out_block_id, comment='zero').array_fill_zeros(out)\n        indices = _pyast.Tuple((_pyast.Variable('slice')",
  "        indices = _pyast.Tuple((_pyast.Variable('slice')", rule='R02.2')
M('C02', 'Diagonalize forwards without zero fill', 'evaluable.py',
  "        out_diag = _pyast.Variable('numpy').get_attr('einsum').call(_pyast.LiteralStr('...ii->...i'), out)\n        if mode == 'assign':\n            builder.get_block_for_evaluable(self, block_id=out_block_id, comment='zero').array_fill_zeros(out)\n",
  "        out_diag = _pyast.Variable('numpy').get_attr('einsum').call(_pyast.LiteralStr('...ii->...i'), out)\n", rule='R02.2')
M('C02', 'LoopSum fills zeros only for iadd', 'evaluable.py',
  "        if mode == 'assign':\n            builder.get_block_for_evaluable(self, block_id=out_block_id, comment='zero').array_fill_zeros(out)\n        index_block_id = builder.get_block_id(self.index)",
  "        if mode == 'iadd':\n            builder.get_block_for_evaluable(self, block_id=out_block_id, comment='zero').array_fill_zeros(out)\n        index_block_id = builder.get_block_id(self.index)", rule='R02.2')
M('C02', 'Add calls the in-place protocol of its terms directly', 'evaluable.py', "        for func in self.funcs:\n            builder.compile_with_out(func, out, out_block_id, 'iadd')", "        for func in self.funcs:\n            func._compile_with_out(builder, out, out_block_id, 'iadd')", rule='R02.3')
M('C02', 'dependents escape dropped', 'evaluable.py', "        if self.ndependents[evaluable] > 1 or evaluable_block_id < out_block_id or evaluable._compile_with_out(", "        if evaluable_block_id < out_block_id or evaluable._compile_with_out(", rule='R02.3')
M('C02', 'in-place call tried before the escapes', 'evaluable.py', "        if self.ndependents[evaluable] > 1 or evaluable_block_id < out_block_id or evaluable._compile_with_out(self, out, out_block_id, mode) is NotImplemented:",
  "        if evaluable._compile_with_out(self, out, out_block_id, mode) is NotImplemented or self.ndependents[evaluable] > 1 or evaluable_block_id < out_block_id:", rule='R02.3')
M('C02', 'GetItem.variables forgets the item', '_pyast.py', "        return self.value.variables | self.item.variables", "        return self.value.variables", rule='R02.4')
M('C02', 'Call.variables forgets keyword arguments', '_pyast.py', "        return frozenset().union(self.func.variables, *(arg.variables for arg in self.args), *(arg.variables for arg in self.kwargs.values()))", "        return frozenset().union(self.func.variables, *(arg.variables for arg in self.args))", rule='R02.4')
M('C02', 'If.filter does not recurse into else', '_pyast.py', "            return If(self.condition, self.body.filter(f), self.else_body.filter(f))", "            return If(self.condition, self.body.filter(f), self.else_body)", rule='R02.4')
M('C02', 'With.filter drops the as_ clause', '_pyast.py', "            return With(self.item, self.body.filter(f), self.as_, self.omit_if_body_is_empty)", "            return With(self.item, self.body.filter(f))", rule='R02.4')
M('C02', 'BinOp prints rhs unparenthesised', '_pyast.py', "        return f'{self.lhs.py_paren_expr} {self.op} {self.rhs.py_paren_expr}'", "        return f'{self.lhs.py_paren_expr} {self.op} {self.rhs.py_expr}'", rule='R02.5')
M('C02', 'Inflate drops length from dependencies', 'evaluable.py', "    @property\n    def dependencies(self):\n        return self.func, self.dofmap, self.length", "    @property\n    def dependencies(self):\n        return self.func, self.dofmap", rule='R02.6')
M('C02', 'benign: reorder fill and index compilation in Inflate', 'evaluable.py',
  "        if mode == 'assign':\n            builder.get_block_for_evaluable(self, block_id=out_block_id, comment='zero').array_fill_zeros(out)\n        indices = _pyast.Tuple((_pyast.Variable('slice').call(_pyast.Variable('None')),)*(self.ndim-1) + (builder.compile(self.dofmap),))\n        values = builder.compile(self.func)",
  "        values = builder.compile(self.func)\n        indices = _pyast.Tuple((_pyast.Variable('slice').call(_pyast.Variable('None')),)*(self.ndim-1) + (builder.compile(self.dofmap),))\n        if mode == 'assign':\n            builder.get_block_for_evaluable(self, block_id=out_block_id, comment='zero').array_fill_zeros(out)", expect='silent')
M('C03', 'setflags freeze loop dropped', 'evaluable.py', "        for v in cache_vars:\n            main.append(_pyast.Exec(v.get_attr('setflags').call(write=_pyast.LiteralBool(False))))\n", "", rule='R03.2')
M('C03', 'cache predicate ignores isconstant', 'evaluable.py', "            if isinstance(evaluable, Array) and evaluable.isconstant:", "            if isinstance(evaluable, Array):", rule='R03.2')
M('C03', 'first_run never cleared', 'evaluable.py', "        main.append(_pyast.Assign(first_run, _pyast.LiteralBool(False)))\n", "", rule='R03.2')
M('C03', 'rerun body filtered after the freeze', 'evaluable.py',
  "        main_rerun = main.filter(lambda stmts: _pyast.Block() if stmts in rerun_skip_blocks else None)\n        first_run = _pyast.Variable('first_run')\n        # Make all cached results immutable.\n        for v in cache_vars:\n            main.append(_pyast.Exec(v.get_attr('setflags').call(write=_pyast.LiteralBool(False))))\n",
  "        first_run = _pyast.Variable('first_run')\n        # Make all cached results immutable.\n        for v in cache_vars:\n            main.append(_pyast.Exec(v.get_attr('setflags').call(write=_pyast.LiteralBool(False))))\n        main_rerun = main.filter(lambda stmts: _pyast.Block() if stmts in rerun_skip_blocks else None)\n", rule='R03.2')
M('C03', 'Guard becomes cacheable', 'evaluable.py', "    @property\n    def isconstant(self):\n        return False  # avoid simplifications", "    @property\n    def isconstant(self):\n        return self.fun.isconstant  # avoid simplifications", rule='R03.3')
M('C03', 'Loop.arguments keeps the index of another loop', 'evaluable.py', "        return super().arguments - frozenset({self.index})", "        return super().arguments - frozenset({self.index, self.length})", rule='R03.3')
M('C03', 'argument ingested without asarray', 'evaluable.py', "        block.assign_to(out, _pyast.Variable('numpy').get_attr('asarray').call(builder.get_argument(self.name)).get_attr('astype').call(self.ast_dtype, casting=_pyast.LiteralStr('same_kind'), copy=_pyast.LiteralBool(False)))", "        block.assign_to(out, builder.get_argument(self.name))", rule='R03.4')
M('C03', 'System caches a non-constant jacobian', 'solver.py', "                jac = matrix.assemble_block_csr(jac_blocks)\n            res = numpy.concatenate(res_blocks)\n            res += jac @ numpy.concatenate(",
  "                jac = matrix.assemble_block_csr(jac_blocks)\n                self.__cache['jacobian'] = jac\n            res = numpy.concatenate(res_blocks)\n            res += jac @ numpy.concatenate(", rule='R03.5')
M('C06', 'InRange guard uses the upper bound of the length', 'evaluable.py', "        if 0 <= lower_index <= upper_index < lower_length:\n            return self.index", "        if 0 <= lower_index <= upper_index < upper_length:\n            return self.index", rule='R06.1')
M('C06', 'InRange guard off by one', 'evaluable.py', "        if 0 <= lower_index <= upper_index < lower_length:\n            return self.index", "        if 0 <= lower_index <= upper_index <= lower_length:\n            return self.index", rule='R06.1')
M('C06', 'Minimum returns the wrong operand', 'evaluable.py', "            if upper1 <= lower2:\n                return self.x\n            elif upper2 <= lower1:\n                return self.y\n        return super()._simplified()\n\n    def _intbounds_impl(self):\n        lower1, upper1 = self.x._intbounds\n        lower2, upper2 = self.y._intbounds\n        return min(",
  "            if upper1 <= lower2:\n                return self.y\n            elif upper2 <= lower1:\n                return self.x\n        return super()._simplified()\n\n    def _intbounds_impl(self):\n        lower1, upper1 = self.x._intbounds\n        lower2, upper2 = self.y._intbounds\n        return min(", rule='R06.1')
M('C06', 'Mod guard ignores negative dividends', 'evaluable.py', "            if 0 <= lower_dividend and upper_dividend < lower_divisor:\n                return self.dividend\n        return super()._simplified()", "            if upper_dividend < lower_divisor:\n                return self.dividend\n        return super()._simplified()", rule='R06.1')
M('C06', 'NormDim shift without exact length', 'evaluable.py', "        if isinstance(lower_length, int) and lower_length == upper_length and -lower_length <= lower_index and upper_index < 0:", "        if isinstance(lower_length, int) and -lower_length <= lower_index and upper_index < 0:", rule='R06.1')
M('C06', '_const_uniform for a non-degenerate range', 'evaluable.py', "            return lower if lower == upper else None", "            return lower if lower <= upper else None", rule='R06.1')
M('C06', 'Negative bounds not swapped', 'evaluable.py', "        lower, upper = self.arg._intbounds\n        return -upper, -lower", "        lower, upper = self.arg._intbounds\n        return -lower, -upper", rule='R06.4')
M('C06', 'Maximum upper bound uses min', 'evaluable.py', "        return max(lower1, lower2), max(upper1, upper2)", "        return max(lower1, lower2), min(upper1, upper2)", rule='R06.4')
M('C06', 'LoopIndex upper bound is the length', 'evaluable.py', "        lower_length, upper_length = self.length._intbounds\n        return 0, max(0, upper_length - 1)\n\n    def _simplified(self):\n        if isunit(self.length):", "        lower_length, upper_length = self.length._intbounds\n        return 0, max(0, lower_length - 1)\n\n    def _simplified(self):\n        if isunit(self.length):", rule='R06.4')
M('C06', 'benign: chained compare split with and', 'evaluable.py', "        if 0 <= lower_index <= upper_index < lower_length:\n            return self.index", "        if 0 <= lower_index and upper_index < lower_length:\n            return self.index", expect='silent')
M('C06', 'benign: swap conjunct order in Mod', 'evaluable.py', "            if 0 <= lower_dividend and upper_dividend < lower_divisor:\n                return self.dividend\n        return super()._simplified()", "            if upper_dividend < lower_divisor and lower_dividend >= 0:\n                return self.dividend\n        return super()._simplified()", expect='silent')

# ---------------------------------------------------------------- C07
M('C07', 'numpy.cos registered on the Sin node', 'function.py', "        return _Wrapper.broadcasted_arrays(evaluable.Cos, arg, min_dtype=float)", "        return _Wrapper.broadcasted_arrays(evaluable.Sin, arg, min_dtype=float)", rule='R07.1')
M('C07', 'evaluable.cosh returns SinH', 'evaluable.py', "def cosh(arg):\n    return CosH(arg)", "def cosh(arg):\n    return SinH(arg)", rule='R07.1')
M('C07', 'subtract adds', 'evaluable.py', "def subtract(arg1, arg2):\n    return add(arg1, negative(arg2))", "def subtract(arg1, arg2):\n    return add(arg1, arg2)", rule='R07.1')
M('C07', 'divide swaps its operands', 'evaluable.py', "def divide(arg1, arg2):\n    return multiply(arg1, reciprocal(arg2))", "def divide(arg1, arg2):\n    return multiply(arg2, reciprocal(arg1))", rule='R07.1')
M('C07', 'log10 divides by log(2)', 'evaluable.py', "    return ln(arg) / astype(numpy.log(10), arg.dtype)", "    return ln(arg) / astype(numpy.log(2), arg.dtype)", rule='R07.1')
M('C07', 'sqrt uses exponent 2', 'evaluable.py', "    return power(arg, astype(.5, arg.dtype))", "    return power(arg, astype(2, arg.dtype))", rule='R07.1')
M('C07', 'numpy.sinc without the factor pi', 'function.py', "        return _Wrapper.broadcasted_arrays(evaluable.sinc, arg * numpy.pi, min_dtype=float)", "        return _Wrapper.broadcasted_arrays(evaluable.sinc, arg, min_dtype=float)", rule='R07.1')
M('C07', 'floor_divide registered on Mod', 'function.py', "        return _Wrapper.broadcasted_arrays(evaluable.FloorDivide, dividend, divisor)", "        return _Wrapper.broadcasted_arrays(evaluable.Mod, dividend, divisor)", rule='R07.1')
M('C07', 'minimum registered on Maximum', 'function.py', "        return _Wrapper.broadcasted_arrays(evaluable.Minimum, a, b)", "        return _Wrapper.broadcasted_arrays(evaluable.Maximum, a, b)", rule='R07.1')
M('C07', 'Greater emits numpy.less', 'evaluable.py', "        return _pyast.Variable('numpy').get_attr('greater').call(x, y)", "        return _pyast.Variable('numpy').get_attr('less').call(x, y)", rule='R07.1')
M('C07', 'imag of a real array returns the array', 'evaluable.py', "        return Imag(arg)\n    else:\n        return zeros_like(arg)", "        return Imag(arg)\n    else:\n        return arg", rule='R07.1')
M('C07', 'greater without force_dtype', 'function.py', "        return _Wrapper.broadcasted_arrays(evaluable.Greater, left, right, force_dtype=bool)", "        return _Wrapper.broadcasted_arrays(evaluable.Greater, left, right)", rule='R07.2')
M('C07', 'true_divide without min_dtype', 'function.py', "        return _Wrapper.broadcasted_arrays(evaluable.divide, dividend, divisor, min_dtype=float)", "        return _Wrapper.broadcasted_arrays(evaluable.divide, dividend, divisor)", rule='R07.2')
M('C07', 'exp promoted to int only', 'function.py', "        return _Wrapper.broadcasted_arrays(evaluable.Exp, arg, min_dtype=float)", "        return _Wrapper.broadcasted_arrays(evaluable.Exp, arg, min_dtype=int)", rule='R07.2')
M('C07', 'less accepts complex operands', 'function.py', "        return _Wrapper.broadcasted_arrays(evaluable.Less, left, right, force_dtype=bool)", "        return _Wrapper.broadcasted_arrays(evaluable.Less, left, right, force_dtype=bool)\n\n    _less_marker = None", expect='silent')
M('C07', 'logical_or accepts integers', 'function.py', "        if a.dtype != bool or b.dtype != bool:\n            return NotImplemented\n        return _Wrapper.broadcasted_arrays(evaluable.add, a, b)", "        return _Wrapper.broadcasted_arrays(evaluable.add, a, b)", rule='R07.2')
M('C07', 'array_function hook ignores the table', 'function.py', "        if func not in HANDLED_FUNCTIONS:\n            return NotImplemented\n", "", rule='R07.3')
M('C07', 'benign: reorder registrations', 'function.py', "    @implements(numpy.logical_and)\n    @implements(numpy.bitwise_and)", "    @implements(numpy.bitwise_and)\n    @implements(numpy.logical_and)", expect='silent')
M('C07', 'benign: reciprocal written as division', 'evaluable.py', "def divide(arg1, arg2):\n    return multiply(arg1, reciprocal(arg2))", "def divide(arg1, arg2):\n    return multiply(reciprocal(arg2), arg1)", expect='silent')

# ---------------------------------------------------------------- C05 / C09
M('C05', 'indices returned without unique', 'evaluable.py', "                indices = [flatindex]\n                for n in reversed(self.shape[1:]):", "                indices = [concatenate(index_parts)]\n                for n in reversed(self.shape[1:]):", rule='R05.1')
M('C05', 'unravel with unreversed lengths', 'evaluable.py', "                for n in reversed(self.shape[1:]):\n                    indices[:1] = divmod(indices[0], n)", "                for n in self.shape[1:]:\n                    indices[:1] = divmod(indices[0], n)", rule='R05.2')
M('C05', 'values inflated over the sorter instead of the inverse', 'evaluable.py', "    inverse = UniqueInverse(mask, sorter)", "    inverse = UniqueInverse(mask, ArgSort(sorter))", rule='R05.3')
M('C05', 'as_csr returns colidx before rowptr', 'evaluable.py', "    return values, CompressIndices(rowidx, nrows), colidx, ncols", "    return values, colidx, CompressIndices(rowidx, nrows), ncols", rule='R05.4')
M('C05', 'row pointers compressed against ncols', 'evaluable.py', "    return values, CompressIndices(rowidx, nrows), colidx, ncols", "    return values, CompressIndices(rowidx, ncols), colidx, ncols", rule='R05.4')
M('C05', 'part slices overlap', 'evaluable.py', "slices = [Range(length) + offset for length, offset in zip(lengths, util.cumsum(lengths))]", "slices = [Range(length) for length, offset in zip(lengths, util.cumsum(lengths))]", rule='R05.1')
M('C05', 'benign: rename locals in assparse', 'evaluable.py', "                lengths = [arg.shape[0] for arg in value_parts]", "                lengths = [part.shape[0] for part in value_parts]", expect='silent')
M('C09', '_Mul.get_evaluable_weights divides by sample1.nelems', 'sample.py',
  "        ielem1, ielem2 = evaluable.divmod(__ielem, self._sample2.nelems)\n        weights1 = self._sample1.get_evaluable_weights(ielem1)", "        ielem1, ielem2 = evaluable.divmod(__ielem, self._sample1.nelems)\n        weights1 = self._sample1.get_evaluable_weights(ielem1)", rule='R09.1')
M('C09', '_Mul.getindex strides by sample1.npoints', 'sample.py', "        return (index1[:, None] * self._sample2.npoints + index2[None, :]).ravel()", "        return (index1[:, None] * self._sample1.npoints + index2[None, :]).ravel()", rule='R09.1')
M('C09', '_Mul lower args swapped', 'sample.py', "        return self._sample1.get_lower_args(ielem1) * self._sample2.get_lower_args(ielem2)", "        return self._sample2.get_lower_args(ielem2) * self._sample1.get_lower_args(ielem1)", rule='R09.1')
M('C09', '_Add.getindex offsets by nelems', 'sample.py', "            return self._sample2.getindex(ielem - self._sample1.nelems) + self._sample1.npoints", "            return self._sample2.getindex(ielem - self._sample1.nelems) + self._sample1.nelems", rule='R09.1')
M('C09', '_Add.get_element_hull not shifted', 'sample.py', "            return self._sample2.get_element_hull(ielem - self._sample1.nelems)", "            return self._sample2.get_element_hull(ielem)", rule='R09.1')
M('C09', '_Integral sums over another index', 'sample.py', "        return evaluable.loop_sum(elem_integral, ielem)", "        return evaluable.loop_sum(elem_integral, evaluable.loop_index(f'_sample_{len(args.args)+1}', self._sample.nelems))", rule='R09.2')
M('C09', 'benign: rename ielem1/ielem2 consistently is not recognised', 'sample.py', "        return evaluable.einsum('A,B->AB', weights1, weights2)", "        return evaluable.einsum('A,B->AB', weights1, weights2)  # outer product", expect='silent')

M('C18', 'revert F11: Arnoldi without __nutils_hash__', 'solver.py', "    @property\n    def __nutils_hash__(self):\n        return types.nutils_hash(('Arnoldi', self.maxiter, self.linargs))\n\n", "", rule='R18.7')

# ---------------------------------------------------------------- rules added after the first seeds
M('C01', 'Choose._multiply compares selector shapes only', 'evaluable.py', "        if isinstance(other, Choose) and self.index == other.index:", "        if isinstance(other, Choose) and self.index.shape == other.index.shape:", rule='R01.5')
M('C01', 'Inflate._add ignores the dofmap', 'evaluable.py', "        if isinstance(other, Inflate) and self.dofmap == other.dofmap:", "        if isinstance(other, Inflate) and self.length == other.length:", rule='R01.5')
M('C01', 'LoopSum._multiply captures the loop index', 'evaluable.py', "        if self.index not in other.arguments:\n            return loop_sum(self.func * other, self.index)", "        return loop_sum(self.func * other, self.index)", rule='R01.5')
M('C01', 'benign: guard operands swapped', 'evaluable.py', "        if isinstance(other, Choose) and self.index == other.index:", "        if isinstance(other, Choose) and other.index == self.index:", expect='silent')
M('C04', 'Power: terms returned by case split', 'evaluable.py',
  "        return einsum('A,A,AB->AB', self.power, power(self.func, self.power - astype(1, self.power.dtype)), derivative(self.func, var, seen)) \\\n            + einsum('A,A,AB->AB', ln(self.func), self, derivative(self.power, var, seen))",
  "        if var in self.power.arguments:\n            return einsum('A,A,AB->AB', ln(self.func), self, derivative(self.power, var, seen))\n        return einsum('A,A,AB->AB', self.power, power(self.func, self.power - astype(1, self.power.dtype)), derivative(self.func, var, seen))", rule='R04.2')
M('C04', 'Custom derivative overwrites its accumulator', 'function.py', "            result += (epd * eda).sum(range(self.ndim, self.ndim + arg.ndim - self.points_dim))", "            result = (epd * eda).sum(range(self.ndim, self.ndim + arg.ndim - self.points_dim))", rule='R04.5')
M('C14', 'project overwrites prescribed values', 'topology.py', "                constrain[~constrain.where & N] = 0", "                constrain[N] = 0", rule='R14.7')
M('C14', 'submatrix cache compares columns with cached rows', 'matrix/_base.py', "(cols != self._cached_cols).any()", "(cols != self._cached_rows).any()", rule='R14.6')
M('C02', 'dependency edge recorded only on a cache miss', 'evaluable.py',
  "        self._evaluable_deps.setdefault(self._origin, util.IDSet()).add(evaluable)\n        if (out := self._compiled_cache.get(evaluable)) is None:\n",
  "        if (out := self._compiled_cache.get(evaluable)) is None:\n            self._evaluable_deps.setdefault(self._origin, util.IDSet()).add(evaluable)\n", rule='R02.9')
M('C02', 'shared allocation only for block (0,)', 'evaluable.py', "        if self._parallel and len(out_block_id) == 1:", "        if self._parallel and out_block_id == (0,):", rule='R02.8')
M('C03', 'Loop.dependencies drops the length', 'evaluable.py', "        return self.length, *self.init_args, *self.body_args", "        return *self.init_args, *self.body_args", rule='R03.3')
M('C06', 'Loop.dependencies drops the length (metadata)', 'evaluable.py', "        return self.length, *self.init_args, *self.body_args", "        return *self.init_args, *self.body_args", rule='R06.2')
M('C03', 'argument shape validated on the first run only', 'evaluable.py', "        block.if_(_pyast.BinOp(shape, '!=', out.get_attr('shape'))).raise_(", "        block.if_(_pyast.Variable('first_run')).if_(_pyast.BinOp(shape, '!=', out.get_attr('shape'))).raise_(", rule='R03.4')
M('C19', 'shortcut continue skips the summed-index union', 'expression_v2.py',
  "        for iterm, (negate, s_term, (term, term_shape, term_indices, term_summed_indices)) in enumerate(unaligned[1:], 2):\n            if term_indices != indices:",
  "        for iterm, (negate, s_term, (term, term_shape, term_indices, term_summed_indices)) in enumerate(unaligned[1:], 2):\n            if term_indices == indices and term_shape == shape:\n                aligned.append((negate, term))\n                continue\n            if term_indices != indices:", rule='R19.2')
M('C02', 'TakeDiag fusion compares a label with a position', 'evaluable.py', "func.out_idx[axis] if i == func.out_idx[rmaxis] else i", "func.out_idx[axis] if i == rmaxis else i", rule='R02.10')
M('C02', 'Sum fusion removes the label at the wrong place', 'evaluable.py', "            return transpose(Einsum(func.args, func.args_idx, func.out_idx[:rmaxis] + func.out_idx[rmaxis+1:]), axes)\n\n    def _sum(self, axis):", "            return transpose(Einsum(func.args, func.args_idx, func.out_idx[:rmaxis] + func.out_idx[rmaxis+1:]), axes)  # unchanged\n\n    def _sum(self, axis):", expect='silent')
M('C09', 'zip weights looked up at the zipped element index', 'sample.py', "        weights = self._samples[0].get_evaluable_weights(ielem0)", "        weights = self._samples[0].get_evaluable_weights(ielem)", rule='R09.1')
M('C09', 'transformed points use the signed determinant', 'points.py', "self.points.weights * abs(float(self.trans.det))", "self.points.weights * float(self.trans.det)", rule='R09.4')
M('C06', 'SearchSorted upper bound one too small', 'evaluable.py', "        return 0, self.array.shape[0]._intbounds[1]", "        return 0, max(0, self.array.shape[0]._intbounds[1] - 1)", rule='R06.4')
M('C06', 'Replace filters after joining', 'function.py', "        unreplaced = {name: shape_dtype for name, shape_dtype in arg.arguments.items() if name not in self._replacements}\n        arguments = _join_arguments([unreplaced] + [replacement.arguments for replacement in self._replacements.values()])",
  "        joined = _join_arguments([arg.arguments] + [replacement.arguments for replacement in self._replacements.values()])\n        arguments = {name: shape_dtype for name, shape_dtype in joined.items() if name not in self._replacements}", rule='R06.5')
M('C07', 'eigh eigenvectors announce the operand dtype', 'function.py', "shape=a.shape, dtype=float if a.dtype != complex else complex)", "shape=a.shape, dtype=a.dtype)", rule='R07.4')
M('C07', 'take normalises negative indices in the caller array', 'function.py', "            indices = numpy.array(indices)\n            if indices.dtype.kind not in 'biu' and indices.size:\n                raise IndexError('arrays used as indices must be of integer or boolean type')\n            indices = indices.astype(int)\n            indices[indices < 0] += length", "            indices = numpy.asarray(indices)\n            if indices.dtype.kind not in 'biu' and indices.size:\n                raise IndexError('arrays used as indices must be of integer or boolean type')\n            indices[indices < 0] += length", rule='R07.5')
M('C07', 'slice stop 0 treated as negative', 'function.py', "        stop = n if s.stop is None else s.stop if s.stop >= 0 else s.stop + n\n        if start == 0 and stop == n:\n            return array\n        length = stop - start", "        stop = n if s.stop is None else s.stop if s.stop > 0 else s.stop + n\n        if start == 0 and stop == n:\n            return array\n        length = stop - start", rule='R07.6')
M('C07', 'revert F13: matmul without alignment check', 'function.py', "        if arg1.shape[-1] != arg2.shape[-1 if arg2.ndim == 1 else -2]:\n            raise ValueError(f'shapes {arg1.shape} and {arg2.shape} are not aligned')\n        if arg2.ndim == 1:", "        if arg2.ndim == 1:", rule='R07.7')
M('C02', 'LoopSum compiles in place before out exists', 'evaluable.py', "        if out_block_id > builder.get_block_id(self.index):\n            # The loop body comes before the definition of `out`.\n            return NotImplemented\n        if mode == 'assign':", "        if mode == 'assign':", rule='R02.3')
M('C20', 'locate: maxdist guard compares the tol dimension', 'SI.py', "        if not (dimmaxdist == Dimensionless and maxdist is None or dimmaxdist == dimgeom):", "        if not (dimmaxdist == Dimensionless and maxdist is None or dimtol == dimgeom):", rule='R20.1')
M('C20', 'mod moved to the quotient rule', 'SI.py', "    @register(operator.mod)\n    @register(operator.sub)\n    def __add_like", "    @register(operator.sub)\n    def __add_like", expect='silent')
M('C07', 'revert F15: vdot broadcasts its operands', 'function.py', "        a = Array.cast(a)\n        b = Array.cast(b)\n        if a.shape != b.shape:\n            if a.size != b.size:\n                raise ValueError(f'shapes {a.shape} and {b.shape} differ in size')\n            a = numpy.ravel(a)\n            b = numpy.ravel(b)\n        return _contract(numpy.conjugate(a) * b, range(a.ndim))",
  "        a, b = broadcast_arrays(a, b)\n        return numpy.sum(numpy.conjugate(a) * b, range(a.ndim))", rule='R07.7')
M('C07', 'vdot broadcasts before comparing sizes', 'function.py', "        a = Array.cast(a)\n        b = Array.cast(b)\n        if a.shape != b.shape:\n            if a.size != b.size:", "        a, b = broadcast_arrays(a, b)\n        if a.shape != b.shape:\n            if a.size != b.size:", rule='R07.7')
M('C07', 'dot without alignment check', 'function.py', "        if a.shape[-1] != b.shape[-1 if b.ndim == 1 else -2]:\n            raise ValueError(f'shapes {a.shape} and {b.shape} are not aligned')\n        if b.ndim > 1:", "        if b.ndim > 1:", rule='R07.7')
M('C07', 'benign: vdot size check written with numpy.size', 'function.py', "            if a.size != b.size:\n                raise ValueError(f'shapes {a.shape} and {b.shape} differ in size')", "            na, nb = a.size, b.size\n            if na != nb or a.size != b.size:\n                raise ValueError(f'shapes {a.shape} and {b.shape} differ in size')", expect='silent')
M('C07', 'benign: dot guard with the operands swapped', 'function.py', "        if a.shape[-1] != b.shape[-1 if b.ndim == 1 else -2]:\n            raise ValueError(f'shapes {a.shape} and {b.shape} are not aligned')\n        if b.ndim > 1:", "        if b.shape[-1 if b.ndim == 1 else -2] != a.shape[-1]:\n            raise ValueError(f'shapes {a.shape} and {b.shape} are not aligned')\n        if b.ndim > 1:", expect='silent')
M('C07', 'revert F16: transpose stores raw axes', 'function.py', "        if axes is None:\n            return _Transpose(array, tuple(reversed(range(array.ndim))))\n        axes = tuple(numeric.normdim(array.ndim, axis) for axis in axes)\n        if sorted(axes) != list(range(array.ndim)):\n            raise ValueError(\"axes don't match array\")\n        return _Transpose(array, axes)",
  "        return _Transpose(array, tuple(reversed(range(array.ndim)) if axes is None else axes))", rule='R07.8')
M('C07', 'transpose normalises but never checks for repeats', 'function.py', "        if sorted(axes) != list(range(array.ndim)):\n            raise ValueError(\"axes don't match array\")\n        return _Transpose(array, axes)", "        return _Transpose(array, axes)", rule='R07.8')
M('C07', 'transpose checks but does not normalise', 'function.py', "        axes = tuple(numeric.normdim(array.ndim, axis) for axis in axes)\n        if sorted(axes) != list(range(array.ndim)):", "        axes = tuple(axes)\n        if sorted(a % array.ndim for a in axes) != list(range(array.ndim)):", rule='R07.8')
M('C07', '_Transpose._end without normdim', 'function.py', "        axes = tuple(numeric.normdim(array.ndim, axis) for axis in axes)\n        if all(a == b", "        axes = tuple(axes)\n        if all(a == b", rule='R07.8')
M('C07', '_Transpose._end without duplicate check', 'function.py', "        if len(trans) != array.ndim:\n            raise Exception('duplicate axes')\n        return cls(", "        return cls(", rule='R07.8')
M('C07', 'benign: transpose permutation check via set', 'function.py', "        if sorted(axes) != list(range(array.ndim)):\n            raise ValueError(\"axes don't match array\")", "        if len(axes) != array.ndim or len(set(axes)) != array.ndim:\n            raise ValueError(\"axes don't match array\")", expect='silent')
M('C07', 'benign: transpose normalises into a new name', 'function.py', "        axes = tuple(numeric.normdim(array.ndim, axis) for axis in axes)\n        if sorted(axes) != list(range(array.ndim)):\n            raise ValueError(\"axes don't match array\")\n        return _Transpose(array, axes)", "        perm = tuple(numeric.normdim(array.ndim, axis) for axis in axes)\n        if sorted(perm) != list(range(array.ndim)):\n            raise ValueError(\"axes don't match array\")\n        return _Transpose(array, perm)", expect='silent')
M('C07', 'revert F17: eig without squareness test', 'function.py', "    def eig(a):\n        if a.ndim < 2 or a.shape[-2] != a.shape[-1]:\n            raise ValueError('Last 2 dimensions of the array must be square')\n        return", "    def eig(a):\n        return", rule='R07.9')
M('C07', 'revert F17: eigh without squareness test', 'function.py', "    def eigh(a):\n        if a.ndim < 2 or a.shape[-2] != a.shape[-1]:\n            raise ValueError('Last 2 dimensions of the array must be square')\n        return", "    def eigh(a):\n        return", rule='R07.9')
M('C07', 'det tests the dimension only', 'function.py', "    def det(a):\n        if a.ndim < 2 or a.shape[-2] != a.shape[-1]:", "    def det(a):\n        if a.ndim < 2:", rule='R07.9')
M('C07', 'inv without test', 'function.py', "    def inv(a):\n        if a.ndim < 2 or a.shape[-2] != a.shape[-1]:\n            raise ValueError('Last 2 dimensions of the array must be square')\n", "    def inv(a):\n", rule='R07.9')
M('C07', 'revert F18: searchsorted accepts any dimension', 'function.py', "        if array.ndim != 1:\n            raise ValueError('the array to search must be one-dimensional')\n", "", rule='R07.9')
M('C07', 'revert F19: interp without length test', 'function.py', "        if numpy.ndim(xp) != 1 or numpy.shape(xp) != numpy.shape(fp):\n            raise ValueError('fp and xp must be one-dimensional and of the same length')\n", "", rule='R07.7')
M('C07', 'interp tests the lengths after forming the slopes', 'function.py', "        if numpy.ndim(xp) != 1 or numpy.shape(xp) != numpy.shape(fp):\n            raise ValueError('fp and xp must be one-dimensional and of the same length')\n        index = numpy.searchsorted(xp, x)\n        _xp = numpy.concatenate([[xp[0]], xp])\n        _fp = numpy.concatenate([[fp[0]], fp])\n        _gp = numpy.concatenate([[0.], numpy.diff(fp) / numpy.diff(xp), [0.]])\n",
  "        index = numpy.searchsorted(xp, x)\n        _xp = numpy.concatenate([[xp[0]], xp])\n        _fp = numpy.concatenate([[fp[0]], fp])\n        _gp = numpy.concatenate([[0.], numpy.diff(fp) / numpy.diff(xp), [0.]])\n        if numpy.ndim(xp) != 1 or numpy.shape(xp) != numpy.shape(fp):\n            raise ValueError('fp and xp must be one-dimensional and of the same length')\n", rule='R07.7')
M('C07', 'benign: interp length test with len()', 'function.py', "        if numpy.ndim(xp) != 1 or numpy.shape(xp) != numpy.shape(fp):", "        if numpy.ndim(xp) != 1 or numpy.ndim(fp) != 1 or len(xp) != len(fp):", expect='silent')
M('C07', 'benign: eig test split in two', 'function.py', "    def eig(a):\n        if a.ndim < 2 or a.shape[-2] != a.shape[-1]:\n            raise ValueError('Last 2 dimensions of the array must be square')\n", "    def eig(a):\n        if a.ndim < 2 or a.shape[-1] != a.shape[-2]:\n            raise numpy.linalg.LinAlgError('Last 2 dimensions of the array must be square')\n", expect='silent')
M('C07', 'benign: searchsorted test after the side test', 'function.py', "        if array.ndim != 1:\n            raise ValueError('the array to search must be one-dimensional')\n        if side not in ('left', 'right'):\n            raise ValueError(f'expected \"left\" or \"right\", got {side}')\n", "        if side not in ('left', 'right'):\n            raise ValueError(f'expected \"left\" or \"right\", got {side}')\n        if array.ndim != 1:\n            raise ValueError('the array to search must be one-dimensional')\n", expect='silent')
M('C07', 'benign twin of F20: subscript refuses two index arrays', 'function.py', "        array = self\n        axis = 0\n        for it in item + (slice(None),)*nx if iell is None", "        if sum(numpy.ndim(it) > 0 for it in item if it is not ... and it is not numpy.newaxis and not isinstance(it, slice)) > 1:\n            raise NotImplementedError('more than one index array')\n        array = self\n        axis = 0\n        for it in item + (slice(None),)*nx if iell is None", expect='silent')
M('C13', 'revert F21: argument values converted with an unchecked cast', 'evaluable.py', "get_attr('asarray').call(builder.get_argument(self.name)).get_attr('astype').call(self.ast_dtype, casting=_pyast.LiteralStr('same_kind'), copy=_pyast.LiteralBool(False)))", "get_attr('asarray').call(builder.get_argument(self.name), dtype=self.ast_dtype))", rule='R13.6')
M('C13', 'argument values converted with casting unsafe', 'evaluable.py', "casting=_pyast.LiteralStr('same_kind'), copy=_pyast.LiteralBool(False)))", "casting=_pyast.LiteralStr('unsafe'), copy=_pyast.LiteralBool(False)))", rule='R13.6')
M('C13', 'benign: argument values converted with casting safe', 'evaluable.py', "casting=_pyast.LiteralStr('same_kind'), copy=_pyast.LiteralBool(False)))", "casting=_pyast.LiteralStr('safe'), copy=_pyast.LiteralBool(False)))", expect='silent')
M('C13', 'argument values not converted at all', 'evaluable.py', "get_attr('asarray').call(builder.get_argument(self.name)).get_attr('astype').call(self.ast_dtype, casting=_pyast.LiteralStr('same_kind'), copy=_pyast.LiteralBool(False)))", "get_attr('asarray').call(builder.get_argument(self.name)))", rule='R13.3')
M('C18', 'seed C18-agent2-1: empty entry file unlinked when the function raises', 'cache.py', "            with disable(), log.add(log_):\n                value = func(*args, **kwargs)\n            pickle.dump((value, log_), f)", "            try:\n                with disable(), log.add(log_):\n                    value = func(*args, **kwargs)\n            except BaseException:\n                cachefile.unlink()\n                raise\n            pickle.dump((value, log_), f)", rule='R18.8')
M('C18', 'recursion entry files removed with os.remove after the end marker', 'cache.py', "                if stop:\n                    return\n                yield value", "                if stop:\n                    os.remove(cachefile)\n                    return\n                yield value", rule='R18.8')
M('C18', 'seed C18-agent2-2: end marker returns before replaying its log', 'cache.py', "                            log.debug('[cache.Recursion {}.{:04d}] load'.format(hkey, i))\n                            log_.replay()", "                            log.debug('[cache.Recursion {}.{:04d}] load'.format(hkey, i))\n                            if stop:\n                                return\n                            log_.replay()", rule='R18.5')
M('C18', 'benign: replay before the debug line', 'cache.py', "                            log.debug('[cache.Recursion {}.{:04d}] load'.format(hkey, i))\n                            log_.replay()", "                            log_.replay()\n                            log.debug('[cache.Recursion {}.{:04d}] load'.format(hkey, i))", expect='silent')
M('C15', 'revert F22: blocks are not validated on their own', 'matrix/__init__.py', "            if not (block_rowptr[0] == 0 and\n                    all(block_rowptr[1:] >= block_rowptr[:-1]) and\n                    block_rowptr[-1] == len(block_values) == len(block_colidx)):\n                raise MatrixError('assemble received invalid row indices')\n            if not (all(block_colidx >= 0) and\n                    all(block_colidx < block_ncols)):\n                raise MatrixError('assemble received invalid column indices')\n", "", rule='R15.9')
M('C15', 'block column indices compared with <= width', 'matrix/__init__.py', "                    all(block_colidx < block_ncols)):", "                    all(block_colidx <= block_ncols)):", rule='R15.9')
M('C15', 'block column indices compared with the total width', 'matrix/__init__.py', "                    all(block_colidx < block_ncols)):", "                    all(block_colidx < ncols)):", rule='R15.9')
M('C15', 'block row pointer start not checked', 'matrix/__init__.py', "            if not (block_rowptr[0] == 0 and\n                    all(block_rowptr[1:] >= block_rowptr[:-1]) and", "            if not (all(block_rowptr[1:] >= block_rowptr[:-1]) and", rule='R15.9')
M('C15', 'block validation after the block was used', 'matrix/__init__.py', "            if not (all(block_colidx >= 0) and\n                    all(block_colidx < block_ncols)):\n                raise MatrixError('assemble received invalid column indices')\n            if len(block_values):\n                block_data.append((block_values, block_rowptr, block_colidx + col_offset))\n", "            if len(block_values):\n                block_data.append((block_values, block_rowptr, block_colidx + col_offset))\n            if not (all(block_colidx >= 0) and\n                    all(block_colidx < block_ncols)):\n                raise MatrixError('assemble received invalid column indices')\n", rule='R15.9')
M('C15', 'benign: block checks as separate statements', 'matrix/__init__.py', "            if not (all(block_colidx >= 0) and\n                    all(block_colidx < block_ncols)):\n                raise MatrixError('assemble received invalid column indices')\n", "            if not all(block_colidx >= 0):\n                raise MatrixError('assemble received invalid column indices')\n            if not all(block_ncols > block_colidx):\n                raise MatrixError('assemble received invalid column indices')\n", expect='silent')
M('C19', 'revert F23: first parse attempt returns without reaching the end', 'expression_v1.py', "            value = parser.parse_subexpression(True)\n            parser._consume_assert_equal('EOF', msg='Unexpected symbol at end of expression.')\n            return value.ast, arg_shapes", "            value = parser.parse_subexpression(True)\n            return value.ast, arg_shapes", rule='R19.6')
M('C19', 'second parse attempt without end-of-expression assertion', 'expression_v1.py', "    value = parser.parse_subexpression(False)\n    parser._consume_assert_equal('EOF', msg='Unexpected symbol at end of expression.')\n", "    value = parser.parse_subexpression(False)\n", rule='R19.6')
M('C19', 'compound expression without closing parenthesis assertion', 'expression_v1.py', "            value = self.parse_subexpression_cast(omitted_indices)\n            self._consume_assert_equal(')')\n            value = value.replace(ast=('group', value.ast))", "            value = self.parse_subexpression_cast(omitted_indices)\n            self._consume()\n            value = value.replace(ast=('group', value.ast))", rule='R19.6')
M('C19', 'mean braces: closing brace not asserted', 'expression_v1.py', "            self._consume_assert_equal('}')\n", "            self._consume()\n", rule='R19.6')
M('C19', 'benign: end assertion with default message', 'expression_v1.py', "            parser._consume_assert_equal('EOF', msg='Unexpected symbol at end of expression.')\n            return value.ast, arg_shapes", "            parser._consume_assert_equal('EOF')\n            return value.ast, arg_shapes", expect='silent')
M('C13', 'seed C13-agent2-1: replaced names dropped after joining', 'function.py', "        unreplaced = {name: shape_dtype for name, shape_dtype in arg.arguments.items() if name not in self._replacements}\n        arguments = _join_arguments([unreplaced] + [replacement.arguments for replacement in self._replacements.values()])", "        arguments = _join_arguments([arg.arguments] + [replacement.arguments for replacement in self._replacements.values()])\n        arguments = {name: shape_dtype for name, shape_dtype in arguments.items() if name not in self._replacements}", rule='R13.5')
M('C13', 'benign: unreplaced table under another name', 'function.py', "        unreplaced = {name: shape_dtype for name, shape_dtype in arg.arguments.items() if name not in self._replacements}\n        arguments = _join_arguments([unreplaced] + [replacement.arguments for replacement in self._replacements.values()])", "        kept = {name: shape_dtype for name, shape_dtype in arg.arguments.items() if name not in self._replacements}\n        arguments = _join_arguments([kept] + [replacement.arguments for replacement in self._replacements.values()])", expect='silent')
M('C15', 'seed C15-agent2-1: diagonal position compared with the end of the whole index array', 'matrix/_base.py', "            icols = indices[indptr[irow]:indptr[irow+1]]\n            idiag = numpy.searchsorted(icols, irow)\n            diag[irow] = data[indptr[irow]+idiag] if idiag < len(icols) and icols[idiag] == irow else 0", "            i, j = indptr[irow:irow+2]\n            idiag = i + numpy.searchsorted(indices[i:j], irow)\n            diag[irow] = data[idiag] if idiag < len(indices) and indices[idiag] == irow else 0", rule='R15.10')
M('C15', 'diagonal position read before the end test', 'matrix/_base.py', "if idiag < len(icols) and icols[idiag] == irow else 0", "if icols[min(idiag, len(icols)-1)] == irow else 0", rule='R15.10')
M('C15', 'MKL diagonal dominance reads the position without the row-end test', 'matrix/_mkl.py', "diagdom = diagdom and d < m and self.colidx[d] == irow and", "diagdom = diagdom and d < len(self.colidx) and self.colidx[d] == irow and", rule='R15.10')
M('C15', 'benign: diagonal in global CSR coordinates with the row end', 'matrix/_base.py', "            icols = indices[indptr[irow]:indptr[irow+1]]\n            idiag = numpy.searchsorted(icols, irow)\n            diag[irow] = data[indptr[irow]+idiag] if idiag < len(icols) and icols[idiag] == irow else 0", "            i, j = indptr[irow:irow+2]\n            idiag = i + numpy.searchsorted(indices[i:j], irow)\n            diag[irow] = data[idiag] if idiag < j and indices[idiag] == irow else 0", expect='silent')
M('C16', 'seed C16-agent2-2: diagonal view of the output bound to a fresh variable', 'evaluable.py', "        out_diag = _pyast.Variable('numpy').get_attr('einsum').call(_pyast.LiteralStr('...ii->...i'), out)\n        if mode == 'assign':", "        out_diag = _pyast.Variable('numpy').get_attr('einsum').call(_pyast.LiteralStr('...ii->...i'), out)\n        out_diag = builder.get_block_for_evaluable(self, block_id=out_block_id, comment='diagonal view').eval(out_diag)\n        if mode == 'assign':", rule='R16.6')
M('C19', 'seed C19-agent2-1: substituted value not transposed to the argument order', 'expression_v1.py', "        rhs = rhs.transpose(lhs.indices)\n        return lhs, rhs", "        return lhs, rhs", rule='R19.7')
M('C19', 'add/sub without transposing the right operand', 'expression_v1.py', "        other = other.transpose(self.indices)\n        shape, linked_lengths = self._join_shapes(other)\n        return _Array((op, self.ast, other.ast)", "        shape, linked_lengths = self._join_shapes(other)\n        return _Array((op, self.ast, other.ast)", rule='R19.7')
M('C19', 'benign: substitution transposes the left side instead', 'expression_v1.py', "        rhs = rhs.transpose(lhs.indices)\n        return lhs, rhs", "        rhs = rhs.transpose(lhs.indices)\n        assert rhs.indices == lhs.indices\n        return lhs, rhs", expect='silent')
M('C07', 'revert F24: det hands integer operands to Determinant', 'function.py', "            raise ValueError('Last 2 dimensions of the array must be square')\n        if a.dtype in (bool, int):\n            a = a.astype(float)\n        return _Wrapper(evaluable.Determinant", "            raise ValueError('Last 2 dimensions of the array must be square')\n        return _Wrapper(evaluable.Determinant", rule='R07.9')
M('C07', 'benign: inv rejects integer operands instead of converting', 'function.py', "        if a.dtype in (bool, int):\n            a = a.astype(float)\n        return _Wrapper(evaluable.Inverse", "        if a.dtype in (bool, int):\n            raise TypeError('integer matrices cannot be inverted')\n        return _Wrapper(evaluable.Inverse", expect='silent')
M('C15', 'seed C15-agent2-3: csr row pointers from bincount without minlength', 'matrix/_numpy.py', "rows.searchsorted(numpy.arange(self.shape[0]+1))", "numpy.concatenate([[0], numpy.bincount(rows).cumsum()])", rule='R15.3')
M('C15', 'benign: csr row pointers from bincount with minlength', 'matrix/_numpy.py', "rows.searchsorted(numpy.arange(self.shape[0]+1))", "numpy.concatenate([[0], numpy.bincount(rows, minlength=self.shape[0]).cumsum()])", expect='silent')
M('C05', 'seed C05-agent-1: dof map strides from the un-reversed shape', 'evaluable.py', "strides = (1, *itertools.accumulate(self.dofmap.shape[:0:-1], operator.mul))[::-1]", "strides = (1, *itertools.accumulate(self.dofmap.shape[1:], operator.mul))[::-1]", rule='R05.6')
M('C05', 'dof map strides not reversed at the end', 'evaluable.py', "strides = (1, *itertools.accumulate(self.dofmap.shape[:0:-1], operator.mul))[::-1]", "strides = (1, *itertools.accumulate(self.dofmap.shape[:0:-1], operator.mul))", rule='R05.6')
M('C05', 'benign: dof map strides with reversed()', 'evaluable.py', "strides = (1, *itertools.accumulate(self.dofmap.shape[:0:-1], operator.mul))[::-1]", "strides = tuple(reversed((1, *itertools.accumulate(reversed(self.dofmap.shape[1:]), operator.mul))))", expect='silent')
M('C05', 'seed C05-agent-2: cluster scan stops after the first merge', 'evaluable.py', "                    uninserted = align(uninserted, numpy.searchsorted(where, w), shape) * align(unins_, numpy.searchsorted(where, w_), shape)\n            clusters.append((uninserted, where))", "                    uninserted = align(uninserted, numpy.searchsorted(where, w), shape) * align(unins_, numpy.searchsorted(where, w_), shape)\n                    break\n            clusters.append((uninserted, where))", rule='R05.7')
M('C05', 'benign: cluster overlap test with isdisjoint', 'evaluable.py', "                if set(where) & set(clusters[i][1]):\n                    w = where", "                if not set(where).isdisjoint(clusters[i][1]):\n                    w = where", expect='silent')
M('C14', 'seed C14-agent2-3: Direct accepts non-linear systems', 'solver.py', "    def __call__(self, system, *, arguments: ArrayDict = {}, constrain: ArrayDict = {}) -> System.MethodValue:\n        if not system.is_linear:\n            raise ValueError('problem is not linear')\n", "    def __call__(self, system, *, arguments: ArrayDict = {}, constrain: ArrayDict = {}) -> System.MethodValue:\n", rule='R14.8')
M('C14', 'Newton reports the residual of the previous state', 'solver.py', "            jac, res = system.assemble_jacobian_residual(arguments, x)\n            yield system.construct(arguments, x), numpy.linalg.norm(res)\n            x -= jac.solve_leniently(res, **linargs)\n\n\nclass ReuseNewton", "            jac, res = system.assemble_jacobian_residual(arguments, x)\n            x -= jac.solve_leniently(res, **linargs)\n            yield system.construct(arguments, x), numpy.linalg.norm(res)\n\n\nclass ReuseNewton", rule='R14.8')
M('C14', 'ReuseNewton keeps the old residual norm for the new state', 'solver.py', "                resnorm = newresnorm\n                res = newres\n                x = newx\n                yield system.construct(arguments, x), resnorm", "                res = newres\n                x = newx\n                yield system.construct(arguments, x), resnorm\n                resnorm = newresnorm", rule='R14.8')
M('C14', 'LinesearchNewton hands out the rejected trial state', 'solver.py', "                if relax <= self.failrelax:\n                    raise SolverError('stuck in local minimum')\n            x = newx\n\n\nclass Minimize", "                if relax <= self.failrelax:\n                    raise SolverError('stuck in local minimum')\n            x = x + dx\n\n\nclass Minimize", rule='R14.8')
M('C14', 'benign: Newton names the norm first', 'solver.py', "            jac, res = system.assemble_jacobian_residual(arguments, x)\n            yield system.construct(arguments, x), numpy.linalg.norm(res)\n            x -= jac.solve_leniently(res, **linargs)\n\n\nclass ReuseNewton", "            jac, res = system.assemble_jacobian_residual(arguments, x)\n            resnorm = numpy.linalg.norm(res)\n            yield system.construct(arguments, x), resnorm\n            x -= jac.solve_leniently(res, **linargs)\n\n\nclass ReuseNewton", expect='silent')
M('C07', 'revert F25: choose hands any selector to Choose', 'function.py', "        a = Array.cast(a)\n        if a.dtype == bool:\n            a = a.astype(int)\n        elif a.dtype != int:\n            raise TypeError('the index array of choose must be integer or boolean')\n        a, *choices = broadcast_arrays", "        a, *choices = broadcast_arrays", rule='R07.9')
M('C07', 'revert F26: take accepts index arrays of any kind', 'function.py', "            if indices.dtype not in (bool, int):\n                raise IndexError('arrays used as indices must be of integer or boolean type')\n            indices = _Wrapper.broadcasted_arrays(evaluable.NormDim, length, indices)", "            indices = _Wrapper.broadcasted_arrays(evaluable.NormDim, length, indices)", rule='R07.9')
M('C07', 'revert F27: dot reduces with numpy.sum', 'function.py', "        return _contract(a * b, -1)", "        return numpy.sum(a * b, -1)", rule='R07.11')
M('C07', 'contraction helper forgets the boolean case', 'function.py', "    return numpy.greater(summed, 0) if arg.dtype == bool else summed", "    return summed", rule='R07.11')
M('C07', 'revert F28: abs of booleans goes down the sign chain', 'function.py', "        arg = Array.cast(arg)\n        if arg.dtype == bool:\n            return arg\n        return _Wrapper(evaluable.abs", "        arg = Array.cast(arg)\n        return _Wrapper(evaluable.abs", rule='R07.11')
M('C07', 'benign: einsum tests the boolean kind itself', 'function.py', "        return _contract(util.product(factors), range(len(axes)-len(out)))", "        prod = util.product(factors)\n        summed = numpy.sum(prod, range(len(axes)-len(out)))\n        return numpy.greater(summed, 0) if prod.dtype == bool else summed", expect='silent')
M('C07', 'revert F29: reshape factors the lengths of an empty array', 'function.py', "        if not arg.size:\n            # an empty array has no entries to rearrange\n            return zeros(tuple(newshape), arg.dtype)\n", "", rule='R07.12')
M('C07', 'reshape infers -1 without excluding a zero product', 'function.py', "            if not known:\n                raise ValueError(f'cannot reshape array of size {arg.size} into shape {newshape}')\n", "", rule='R07.12')
M('C07', 'benign: reshape tests the size with == 0', 'function.py', "        if not arg.size:\n            # an empty array has no entries to rearrange", "        if arg.size == 0:\n            # an empty array has no entries to rearrange", expect='silent')
