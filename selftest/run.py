#!/venv/bin/python -P
'''Self-test of the checkers: seeded faults must fire, benign twins must stay silent.

Each mutant is a textual edit of ONE file of the current /repo/src/nutils, written to a scratch
copy under a temp dir outside /repo and /verif (removed afterwards); the edited file must still
parse.  Only the checker runs - nutils itself is never imported or executed.

usage: run.py [--property C14] [--jobs 16] [--root /repo] [--list]
exit 0: every applicable fault detected and every benign twin silent; 3: shortfall (an
ANALYSIS-ERROR of the self-test, never a VIOLATION of a property).
'''

import argparse
import ast
import json
import multiprocessing
import os
import shutil
import sys
import tempfile
import time

HERE = os.path.dirname(os.path.abspath(__file__))
VERIF = os.path.dirname(HERE)
sys.path.insert(0, VERIF)

from selftest.mutants import MUTANTS  # noqa: E402


def run_one(args):
    idx, root = args
    m = MUTANTS[idx]
    from sa import AnalysisError
    import check
    path = os.path.join(root, 'src', 'nutils', m['file'])
    try:
        source = open(path).read()
    except OSError:
        return idx, 'inapplicable', 'file missing'
    if source.count(m['old']) != 1:
        return idx, 'inapplicable', f'anchor text occurs {source.count(m["old"])} times'
    new_source = source.replace(m['old'], m['new'])
    try:
        ast.parse(new_source)
    except SyntaxError as e:
        return idx, 'broken-mutant', f'does not parse: {e}'
    tmp = tempfile.mkdtemp(prefix='verif-selftest-')
    try:
        dst = os.path.join(tmp, 'src', 'nutils')
        shutil.copytree(os.path.join(root, 'src', 'nutils'), dst, ignore=shutil.ignore_patterns('__pycache__'))
        with open(os.path.join(dst, m['file']), 'w') as f:
            f.write(new_source)
        try:
            rep = check.analyse(m['property'], 'quick', tmp, evidence_dir=os.path.join(tmp, 'ev'))
        except AnalysisError as e:
            return idx, 'analysis-error', str(e)
        except Exception as e:  # checker crashed on the mutant
            return idx, 'analysis-error', f'{type(e).__name__}: {e}'
        viol = [o for o in rep.obligations if not o.ok]
        # violations already present on the unmutated tree (known findings) do not count
        base = m.get('_baseline', set())
        new = [o for o in viol if (o.rule, o.construct, o.statement or '') not in base]
        if new:
            want = m.get('rule')
            hit = [o for o in new if want is None or o.rule == want]
            return idx, 'fired', '; '.join(f'[{o.rule}] {o.construct}: {o.detail[:90]}' for o in (hit or new)[:2]) + ('' if hit else ' (WRONG RULE)')
        return idx, 'silent', ''
    finally:
        shutil.rmtree(tmp, ignore_errors=True)


def baseline(root, props):
    import check
    out = {}
    for p in props:
        rep = check.analyse(p, 'quick', root, evidence_dir=tempfile.gettempdir())
        out[p] = {(o.rule, o.construct, o.statement or '') for o in rep.obligations if not o.ok}
    return out


def main(argv=None):
    ap = argparse.ArgumentParser()
    ap.add_argument('--property', default=None)
    ap.add_argument('--jobs', type=int, default=min(16, os.cpu_count() or 1))
    ap.add_argument('--root', default='/repo')
    ap.add_argument('--list', action='store_true')
    ap.add_argument('--json', default=None)
    a = ap.parse_args(argv)
    sel = [i for i, m in enumerate(MUTANTS) if a.property is None or m['property'] == a.property.upper()]
    if a.list:
        for i in sel:
            m = MUTANTS[i]
            print(f'{m["property"]} {m["expect"]:6s} {m["name"]}')
        return 0
    t0 = time.time()
    props = sorted({MUTANTS[i]['property'] for i in sel})
    base = baseline(a.root, props)
    for i in sel:
        MUTANTS[i]['_baseline'] = base[MUTANTS[i]['property']]
    with multiprocessing.Pool(a.jobs) as pool:
        results = pool.map(run_one, [(i, a.root) for i in sel], chunksize=1)
    tally = {'faults_seeded': 0, 'faults_detected': 0, 'benign_total': 0, 'benign_silent': 0, 'inapplicable': 0, 'problems': []}
    for idx, status, detail in results:
        m = MUTANTS[idx]
        line = f'{m["property"]} {m["expect"]:6s} {status:14s} {m["name"]}' + (f'  -> {detail}' if detail else '')
        print(line)
        if status == 'inapplicable':
            tally['inapplicable'] += 1
            continue
        if m['expect'] == 'fire':
            tally['faults_seeded'] += 1
            if status == 'fired' and 'WRONG RULE' not in detail:
                tally['faults_detected'] += 1
            else:
                tally['problems'].append(line)
        else:
            tally['benign_total'] += 1
            if status == 'silent':
                tally['benign_silent'] += 1
            else:
                tally['problems'].append(line)
    tally['wall_s'] = round(time.time() - t0, 2)
    print(json.dumps({k: v for k, v in tally.items() if k != 'problems'}))
    if a.json:
        with open(a.json, 'w') as f:
            json.dump(tally, f, indent=1)
    if tally['problems']:
        print('SELFTEST-SHORTFALL:')
        for ln in tally['problems']:
            print('  ' + ln)
        return 3
    return 0


if __name__ == '__main__':
    sys.exit(main())
